#!/venv/bin/python
"""tools/addcheck.py <id> <technique> <text> <note> <ref>  - add/replace an entry of tools/checks.json"""
import json, os, sys
V = os.path.dirname(os.path.dirname(os.path.abspath(__file__)))
p = os.path.join(V, 'tools', 'checks.json')
d = json.load(open(p))
d[sys.argv[1]] = dict(technique=sys.argv[2], text=sys.argv[3], note=sys.argv[4], ref=sys.argv[5])
json.dump(d, open(p, 'w'), indent=1, sort_keys=True)
