#!/bin/sh
# tools/run_all.sh <tier> [ids...]   - run checks in sequence, one summary line each
tier=${1:-quick}; shift
ids=${@:-C01 C02 C03 C04 C05 C06 C07 C08 C09 C10 C11 C12 C13 C14 C15 C16 C17 C18 C19 C20}
for p in $ids; do
  s=$(date +%s)
  ./check $p --tier $tier > /tmp/run_all_$p.out 2>&1; rc=$?
  e=$(date +%s)
  echo "$p rc=$rc wall=$((e-s))s $(tail -1 /tmp/run_all_$p.out | cut -c1-160)"
  grep -m3 "^VIOLATION\|^MACHINERY" /tmp/run_all_$p.out | cut -c1-300
done
