#!/venv/bin/python
"""tools/explain.py <replay.json>  - print XLEval's expectation for a recorded case (debug aid)."""
import json, os, sys, subprocess, tempfile
sys.path.insert(0, os.path.dirname(os.path.dirname(os.path.abspath(__file__))))
from harness import core
c = json.load(open(sys.argv[1]))['case']
c['id'] = 1
d = tempfile.mkdtemp()
open(d + '/t.ndjson', 'w').write(json.dumps(c) + '\n')
names, b = core.builtins_constant()
open(d + '/c.cfg', 'w').write('SPECIFICATION KSpec\nINVARIANT DInv\nCHECK_DEADLOCK FALSE\nCONSTANTS\n OpenDevs = {}\n Builtins = %s\n' % b)
r = core.run_tlc('Debug_Eval.tla', d + '/c.cfg', env={'TRACE_FILE': d + '/t.ndjson'}, must_pass=False)
print(c.get('formula'))
for v in core.printed_values(r.out, 'X'):
    print('expect :', json.dumps(v[2]))
    print('events :', json.dumps(v[3]))
    print('verdict:', v[4])
print('observed:', json.dumps(c.get('out')), json.dumps(c.get('events')))
if 'rror' in r.out:
    print(r.out[-1500:])
