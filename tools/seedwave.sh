#!/bin/sh
# tools/seedwave.sh <NN> <wave-letter>  - test /tmp/wt/T<NN>_out/{1,2,3} against C<NN>, keep as seeded/C<NN>-<letter><k>
n=$1; w=${2:-c}; pre=${3:-T}
for k in 1 2 3 4; do
  d=/tmp/wt/${pre}${n}_out/$k
  [ -f $d/patch.diff ] || continue
  echo "== C$n-$w$k"
  /venv/bin/python /verif/tools/seedtest.py $d C$n --keep C$n-$w$k 2>&1 | grep -v "^ *\"needs\|^ *\"origin" | tail -25
done
