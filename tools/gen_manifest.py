#!/venv/bin/python
"""Regenerates MANIFEST.json from the table below and validates it against the schema."""
import json, os, sys
V = os.path.dirname(os.path.dirname(os.path.abspath(__file__)))

CHECKS = {
 'C20': dict(
   technique='TLA+ reference spec of the emitter (Emitter.tla) model-checked with TLC; TLC-enumerated behaviours replayed on the real Emitter/Parser and random longer ones recorded, every call log validated by TLC against the spec actions (Trace_C20)',
   text='Exhaustive model checking of the reference emitter (all driver histories up to the bound x all callback scripts, re-entrant emits included) for once-at-most-once, ordered delivery, name isolation, exact unsubscription and snapshot stability; the mechanism variant without a once guard is refuted by TLC. Conformance: every exported TLC behaviour (sampled in quick, all in thorough) and seeded random behaviours of up to 40 operations with nested scripts are executed on hotxlfp.Emitter and hotxlfp.Parser and the recorded call log is accepted or rejected event by event by TLC.',
   note='Trusted: TLC, the Python recorder (logs public calls and callback entries/exits only). Listeners return normally. Bounds: quick H=3 histories, <=1 scripted callback; thorough H=4; random behaviours to 40 operations, depth 3.',
   ref='DESIGN.md section 8 C20'),
 'C07': dict(
   technique='TLA+ comparison order (XLOps.tla) model-checked with TLC for trichotomy, derived operators, converse, transitivity, rank order and the blank rule over all pairs/triples of a 25-value pool; every pool pair x 6 operators (as variables and as literals) and seeded random pairs executed on the real parser and judged by TLC (Trace_C07)',
   text='The order is defined once in TLA+ and its laws are model-checked exhaustively on the pool; the real parser is then shown to agree with that definition on every pool pair under all six operators and on thousands of random pairs (numbers, dates with millisecond times, lower-case/digit text, logicals, blanks), so the laws transfer to the code on the explored domain.',
   note='Trusted: TLC, value encoding (harness/values.py). Text under < > restricted to lower-case letters and digits; dates from 1 March 1900 when compared with numbers.',
   ref='DESIGN.md section 8 C07'),
}

NOT_YET = 'check not built yet in this round (planned: DESIGN.md section 10)'

def main():
    props = [json.loads(l)['id'] for l in open(os.path.join(V, 'properties.jsonl'))]
    checks = []
    for pid in props:
        if pid not in CHECKS:
            continue
        c = CHECKS[pid]
        checks.append({
            'property_id': pid,
            'quick_cmd': './check %s --tier quick' % pid,
            'thorough_cmd': './check %s --tier thorough' % pid,
            'evidence_file': 'evidence/%s.json' % pid,
            'replay_cmd_template': './check %s --replay {path}' % pid,
            'engine': 'tlc+conformance',
            'level_claimed': {'category': 'model_checking', 'text': c['text'], 'design_ref': c['ref']},
            'level_note': c['note'],
            'technique': c['technique'],
        })
    na = [{'property_id': p, 'reason': NOT_YET} for p in props if p not in CHECKS]
    m = {
        'version': 1,
        'setup_cmd': './setup.sh',
        'hooks': {'guard': 'HOTXLFP_VERIF', 'enable': 'no source hooks: all observations are taken at the public API; checks import a scratch copy of /repo/hotxlfp (HOTXLFP_VERIF=1 is set but nothing in the sources reads it)',
                  'baseline_off_cmd': 'cd /repo && /venv/bin/python -m pytest -q -p no:cacheprovider',
                  'source_commits': [], 'add_only': True},
        'engines': [{'name': 'tlc+conformance', 'path': 'check', 'serves_properties': [c['property_id'] for c in checks],
                     'kind_free_text': 'TLA+ specification in spec/, TLC model checking, spec-to-code replay and code-to-spec trace validation driven by harness/*.py'}],
        'checks': checks,
        'not_applicable': na,
        'notes': 'Known findings and repaired defects: known_findings.txt. Design and per-property coverage: DESIGN.md.',
    }
    json.dump(m, open(os.path.join(V, 'MANIFEST.json'), 'w'), indent=1)
    try:
        import jsonschema
        jsonschema.validate(m, json.load(open('/root/.vp/MANIFEST.schema.json')))
        print('MANIFEST.json valid; claimed:', [c['property_id'] for c in checks])
    except ImportError:
        print('jsonschema not available here; written without validation')

main()
