#!/venv/bin/python
"""Regenerates MANIFEST.json from the table below and validates it against the schema."""
import json, os, sys
V = os.path.dirname(os.path.dirname(os.path.abspath(__file__)))

CHECKS = json.load(open(os.path.join(V, 'tools', 'checks.json')))

NOT_YET = 'check not built yet in this round (planned: DESIGN.md section 10)'

def main():
    props = [json.loads(l)['id'] for l in open(os.path.join(V, 'properties.jsonl'))]
    checks = []
    for pid in props:
        if pid not in CHECKS:
            continue
        c = CHECKS[pid]
        checks.append({
            'property_id': pid,
            'quick_cmd': './check %s --tier quick' % pid,
            'thorough_cmd': './check %s --tier thorough' % pid,
            'evidence_file': 'evidence/%s.json' % pid,
            'replay_cmd_template': './check %s --replay {path}' % pid,
            'engine': 'tlc+conformance',
            'level_claimed': {'category': 'model_checking', 'text': c['text'], 'design_ref': c['ref']},
            'level_note': c['note'],
            'technique': c['technique'],
        })
    na = [{'property_id': p, 'reason': NOT_YET} for p in props if p not in CHECKS]
    m = {
        'version': 1,
        'setup_cmd': './setup.sh',
        'hooks': {'guard': 'HOTXLFP_VERIF', 'enable': 'no source hooks: all observations are taken at the public API; checks import a scratch copy of /repo/hotxlfp (HOTXLFP_VERIF=1 is set but nothing in the sources reads it)',
                  'baseline_off_cmd': 'cd /repo && /venv/bin/python -m pytest -q -p no:cacheprovider',
                  'source_commits': [], 'add_only': True},
        'engines': [{'name': 'tlc+conformance', 'path': 'check', 'serves_properties': [c['property_id'] for c in checks],
                     'kind_free_text': 'TLA+ specification in spec/, TLC model checking, spec-to-code replay and code-to-spec trace validation driven by harness/*.py'}],
        'checks': checks,
        'not_applicable': na,
        'notes': 'Known findings and repaired defects: known_findings.txt. Design and per-property coverage: DESIGN.md.',
    }
    json.dump(m, open(os.path.join(V, 'MANIFEST.json'), 'w'), indent=1)
    try:
        import jsonschema
        jsonschema.validate(m, json.load(open('/root/.vp/MANIFEST.schema.json')))
        print('MANIFEST.json valid; claimed:', [c['property_id'] for c in checks])
    except ImportError:
        print('jsonschema not available here; written without validation')

main()
