#!/venv/bin/python
"""tools/seed_all.py [-j N] [ids...]  - re-validate every kept seeded change against the current /repo:
patch applies, tests pass, demo fails patched / passes clean, quick check raises a VIOLATION.
Updates meta.json (detected_by, check_summary, revalidated_at_repo_head)."""
import json, os, subprocess, sys, concurrent.futures
V = os.path.dirname(os.path.dirname(os.path.abspath(__file__)))

def one(name):
    d = os.path.join(V, 'seeded', name)
    meta = json.load(open(os.path.join(d, 'meta.json')))
    props = [meta['breaks_property']] + meta.get('also_checked', [])
    p = subprocess.run([os.path.join(V, 'tools', 'seedtest.py'), d, ','.join(props)], stdout=subprocess.PIPE, stderr=subprocess.STDOUT, universal_newlines=True)
    try:
        res = json.loads(p.stdout[p.stdout.index('{'):])
    except Exception:
        return name, {'error': p.stdout[-400:]}
    return name, res

def main():
    args = sys.argv[1:]
    j = 3
    if args[:1] == ['-j']:
        j = int(args[1]); args = args[2:]
    names = args or sorted(os.listdir(os.path.join(V, 'seeded')))
    head = subprocess.run(['git', '-C', '/repo', 'rev-parse', '--short', 'HEAD'], stdout=subprocess.PIPE, universal_newlines=True).stdout.strip()
    with concurrent.futures.ThreadPoolExecutor(j) as ex:
        for name, res in ex.map(one, names):
            mp = os.path.join(V, 'seeded', name, 'meta.json')
            meta = json.load(open(mp))
            if 'error' in res or not res.get('patch_applies'):
                print(name, 'PATCH DOES NOT APPLY / error', str(res)[:200]); meta['revalidation'] = {'repo_head': head, 'applies': False}
            else:
                det = {p: (c['rc'] == 1) for p, c in res['checks'].items()}
                print(name, 'tests', res['tests_pass_with_patch'], 'demo', res.get('demo_clean_rc'), res.get('demo_patched_rc'), 'detected', det)
                meta['revalidation'] = {'repo_head': head, 'applies': True, 'tests_pass_with_patch': res['tests_pass_with_patch'],
                                        'demo_rc_without_patch': res.get('demo_clean_rc'), 'demo_rc_with_patch': res.get('demo_patched_rc'), 'detected_by': det}
            json.dump(meta, open(mp, 'w'), indent=1)

main()
