#!/venv/bin/python
"""tools/seedtest.py <dir-with-patch.diff+demo.py> <property> [--tier quick]
Applies the patch to a scratch copy of /repo, confirms (a) the repo's tests still pass,
(b) demo.py passes without and fails with the patch, then runs ./check <property> against the
patched copy and reports whether it raised a VIOLATION."""
import json, os, shutil, subprocess, sys, tempfile
V = os.path.dirname(os.path.dirname(os.path.abspath(__file__)))

def sh(cmd, cwd=None, env=None, timeout=3600):
    e = dict(os.environ); e.update(env or {})
    p = subprocess.run(cmd, shell=True, cwd=cwd, env=e, stdout=subprocess.PIPE, stderr=subprocess.STDOUT,
                       universal_newlines=True, timeout=timeout)
    return p.returncode, p.stdout

def main():
    d, prop = sys.argv[1], sys.argv[2]
    tier = sys.argv[sys.argv.index('--tier') + 1] if '--tier' in sys.argv else 'quick'
    props = prop.split(',')
    tmp = tempfile.mkdtemp(prefix='seedtest_')
    try:
        clean = os.path.join(tmp, 'clean'); mut = os.path.join(tmp, 'mut')
        for t in (clean, mut):
            os.makedirs(t)
            for f in ('hotxlfp', 'tests'):
                shutil.copytree(os.path.join('/repo', f), os.path.join(t, f), ignore=shutil.ignore_patterns('__pycache__'))
            for f in ('SUPPORTED_FORMULAS.md', 'README.md', 'setup.py'):
                shutil.copy(os.path.join('/repo', f), t)
        rc, out = sh('patch -p1 < %s' % os.path.abspath(os.path.join(d, 'patch.diff')), cwd=mut)
        res = {'patch_applies': rc == 0}
        if rc != 0:
            print(out); print(json.dumps(res)); return 2
        rc, out = sh('/venv/bin/python -m pytest -q -p no:cacheprovider -x 2>&1 | tail -3', cwd=mut)
        res['tests_pass_with_patch'] = ' passed' in out and 'failed' not in out
        res['tests_tail'] = out.strip().splitlines()[-1] if out.strip() else ''
        demo = os.path.abspath(os.path.join(d, 'demo.py'))
        if os.path.exists(demo):
            rc0, _ = sh('/venv/bin/python %s' % demo, cwd=clean, env={'PYTHONPATH': clean}, timeout=600)
            rc1, _ = sh('/venv/bin/python %s' % demo, cwd=mut, env={'PYTHONPATH': mut}, timeout=600)
            res['demo_clean_rc'] = rc0; res['demo_patched_rc'] = rc1
        res['checks'] = {}
        if '--demo-only' in sys.argv:
            name = sys.argv[sys.argv.index('--keep') + 1]
            mp = os.path.join(V, 'seeded', name, 'meta.json')
            meta = json.load(open(mp))
            meta['confirmed'] = {'tests_pass_with_patch': res['tests_pass_with_patch'],
                                 'demo_rc_without_patch': res.get('demo_clean_rc'),
                                 'demo_rc_with_patch': res.get('demo_patched_rc')}
            json.dump(meta, open(mp, 'w'), indent=1)
            print(name, json.dumps(meta['confirmed']))
            return 0
        for p in props:
            rc, out = sh('./check %s --tier %s' % (p, tier), cwd=V, env={'VERIF_REPO': mut})
            viol = [l for l in out.splitlines() if l.startswith('VIOLATION')]
            res['checks'][p] = {'rc': rc, 'violations_listed': len(viol), 'tail': out.strip().splitlines()[-1:]}
        print(json.dumps(res, indent=1))
        if '--keep' in sys.argv:
            name = sys.argv[sys.argv.index('--keep') + 1]
            dst = os.path.join(V, 'seeded', name)
            os.makedirs(dst, exist_ok=True)
            for f in ('patch.diff', 'demo.py', 'note.txt'):
                if os.path.exists(os.path.join(d, f)):
                    shutil.copy(os.path.join(d, f), dst)
            note = open(os.path.join(d, 'note.txt')).read() if os.path.exists(os.path.join(d, 'note.txt')) else ''
            meta = {'breaks_property': props[0], 'also_checked': props[1:], 'needs_to_manifest': note.strip(),
                    'origin': 'independent sub-agent given only the property text and a scratch worktree',
                    'confirmed': {'tests_pass_with_patch': res['tests_pass_with_patch'],
                                  'demo_rc_without_patch': res.get('demo_clean_rc'),
                                  'demo_rc_with_patch': res.get('demo_patched_rc')},
                    'ran': ['tools/seedtest.py (patch applied to a scratch copy of /repo; pytest; demo.py on clean and patched copy; ./check %s --tier %s with VERIF_REPO=<patched copy>)' % (p, tier) for p in props],
                    'detected_by': {p: (res['checks'][p]['rc'] == 1) for p in props},
                    'check_summary': {p: res['checks'][p]['tail'] for p in props}}
            json.dump(meta, open(os.path.join(dst, 'meta.json'), 'w'), indent=1)
        return 0
    finally:
        shutil.rmtree(tmp, True)

sys.exit(main())
