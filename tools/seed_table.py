#!/usr/bin/env python3
"""tools/seed_table.py - the markdown table of DESIGN.md section 12 from seeded/*/meta.json"""
import glob, json, os
V = os.path.dirname(os.path.dirname(os.path.abspath(__file__)))
tot = det = first = 0
print('| property | changes | caught by the quick check | first missed, then strengthened (how: `history` in meta.json) |')
print('|---|---|---|---|')
for pid in ['C%02d' % i for i in range(1, 21)]:
    n = d = 0
    h, miss = [], []
    for x in sorted(glob.glob(os.path.join(V, 'seeded', pid + '-*'))):
        m = json.load(open(os.path.join(x, 'meta.json')))
        n += 1
        ok = m.get('detected_by', {}).get(pid)
        d += 1 if ok else 0
        name = os.path.basename(x)
        if not ok:
            miss.append(name)
        elif 'history' in m:
            h.append(name)
    tot += n; det += d; first += len(h)
    print('| %s | %d | %d | %s%s |' % (pid, n, d, ', '.join(h), ('; **not caught: ' + ', '.join(miss) + '**') if miss else ''))
print()
print('%d changes, %d caught by the quick tier of the property they break, %d of them only after the check was strengthened.' % (tot, det, first))
