#!/venv/bin/python
"""tools/classify.py <property>  - compact classification of the replay files of the last run (debug aid)"""
import json, glob, collections, sys
def show(v):
    if not isinstance(v, dict) or 't' not in v: return json.dumps(v)[:60]
    t=v['t']
    if t=='num': return '%d/%d'%(v['n'],v['d']) if v['d']!=1 else str(v['n'])
    if t=='txt': return repr(''.join(chr(x) for x in v['s']))
    if t=='date': return 'D%04d-%02d-%02d+%dms'%(v['y'],v['mo'],v['d'],v['ms'])
    if t=='arr': return '['+','.join(show(x) for x in v['a'])+']'
    if t=='bool': return str(v['b'])
    if t=='err': return v['c']
    if t=='flt': return 'flt:'+v['r']
    return t
c=collections.Counter(); ex={}
for f in glob.glob('/verif/replays/%s/*.json' % sys.argv[1]):
    d=json.load(open(f)); case=d['case']; i=case.get('in', {})
    fn = i.get('f') or i.get('op') or i.get('kind') or ''
    key=(d['verdict'].split('|')[0].strip(), fn) + tuple((a.get('t') if isinstance(a, dict) else '') for a in (i.get('args') or [i.get('a'), i.get('b')]) if a)
    c[key]+=1
    if key not in ex or len(json.dumps(i))<len(json.dumps(ex[key][0])): ex[key]=(i,case)
for k,n in c.most_common(int(sys.argv[2]) if len(sys.argv)>2 else 40):
    i,case=ex[k]
    args = i.get('args') or [x for x in (i.get('a'), i.get('b')) if x]
    out = case.get('out', {}); out2 = case.get('out2')
    print(n, k[0], k[1], case.get('formula', i.get('formula','')), [show(a) for a in args], '->', show(out.get('res')), out.get('err'), ('| ' + show(out2['res']) + ' ' + out2['err']) if out2 else '')
