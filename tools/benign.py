#!/venv/bin/python
"""tools/benign.py <dir-with-patch.diff> [ids...] - apply a behaviour-preserving change to a scratch copy of /repo and
run the quick checks against it: every VIOLATION is a false alarm of the machinery (or the change is not benign)."""
import json, os, shutil, subprocess, sys, tempfile
V = os.path.dirname(os.path.dirname(os.path.abspath(__file__)))
d = sys.argv[1]
ids = sys.argv[2:] or ['C%02d' % i for i in range(1, 21)]
tmp = tempfile.mkdtemp(prefix='benign_')
try:
    mut = os.path.join(tmp, 'mut'); os.makedirs(mut)
    for f in ('hotxlfp', 'tests'):
        shutil.copytree(os.path.join('/repo', f), os.path.join(mut, f), ignore=shutil.ignore_patterns('__pycache__', '*parsetab.py'))
    for f in ('SUPPORTED_FORMULAS.md', 'README.md', 'setup.py'):
        shutil.copy(os.path.join('/repo', f), mut)
    p = subprocess.run('patch -p1 < %s' % os.path.abspath(os.path.join(d, 'patch.diff')), shell=True, cwd=mut, stdout=subprocess.PIPE, stderr=subprocess.STDOUT, universal_newlines=True)
    if p.returncode:
        print('PATCH DOES NOT APPLY', p.stdout); sys.exit(2)
    t = subprocess.run('/venv/bin/python -m pytest -q -p no:cacheprovider 2>&1 | tail -1', shell=True, cwd=mut, stdout=subprocess.PIPE, universal_newlines=True)
    print('tests:', t.stdout.strip())
    for pid in ids:
        e = dict(os.environ, VERIF_REPO=mut)
        r = subprocess.run('./check %s --tier quick' % pid, shell=True, cwd=V, env=e, stdout=subprocess.PIPE, stderr=subprocess.STDOUT, universal_newlines=True)
        lines = r.stdout.strip().splitlines()
        viol = [l for l in lines if l.startswith('VIOLATION') or l.startswith('MACHINERY')]
        print(pid, 'rc=%d' % r.returncode, lines[-1][:150] if lines else '')
        for l in lines:
            if l.startswith('VIOLATION') or l.startswith('MACHINERY') or l.strip().startswith('verdict'):
                print('   ', l[:400])
        # keep the first replay for inspection
        if r.returncode == 1:
            rd = os.path.join(V, 'replays', pid)
            keep = os.path.join('/tmp/wt/benign_replays', os.path.basename(os.path.dirname(os.path.abspath(d))) + '_' + os.path.basename(os.path.abspath(d)), pid)
            os.makedirs(keep, exist_ok=True)
            for f in sorted(os.listdir(rd))[:5]:
                shutil.copy(os.path.join(rd, f), keep)
        sys.stdout.flush()
finally:
    shutil.rmtree(tmp, True)
