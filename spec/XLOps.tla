------------------------------- MODULE XLOps -------------------------------
(***************************************************************************)
(* Layer 2: the binary operators.  Comparison (C07), arithmetic and        *)
(* concatenation with the implicit conversions (C06), strict propagation   *)
(* of error values (C08).                                                  *)
(*                                                                         *)
(* Where the properties fix the answer the operators below compute it;     *)
(* where they leave it open the answer is an expectation record that       *)
(* admits every permitted outcome:                                         *)
(*   [k |-> "val", v |-> value]              exactly this value            *)
(*   [k |-> "ser", q |-> rational, kind |-> "date" | "either"]             *)
(*                       a date (or, for "either", also a number) with     *)
(*                       this serial; #NUM! if it precedes 1900            *)
(*   [k |-> "errs", cs |-> set of codes]     an error, one of these codes  *)
(*   [k |-> "arr", a |-> Seq(expectation)]                                 *)
(*   [k |-> "any"]                           no property fixes it          *)
(***************************************************************************)
EXTENDS XLValue, XLDate

EVal(v) == [k |-> "val", v |-> v]
EAny == [k |-> "any"]
EErrs(cs) == [k |-> "errs", cs |-> cs]

(***************************************************************************)
(* Serial numbers.  SerialQ is defined for dates from 1 March 1900 whose   *)
(* time of day keeps the numerators inside 32 bits.                        *)
(***************************************************************************)
SerialQ(v) == QAdd(QI(DN(v)), Q(v.ms, MsPerDay))
DateSpecified(v) == DN(v) >= FirstExcelDay

(* <<whole day, ms>> of a rational serial; defined when the fraction is a  *)
(* whole number of milliseconds                                            *)
MsOK(q) == MsPerDay % q.d = 0
PosOfQ(q) == LET w == QFloor(q) IN <<w, (q.n - w * q.d) * (MsPerDay \div q.d)>>
PosOfDate(v) == <<DN(v), v.ms>>
PosLt(p, r) == p[1] < r[1] \/ (p[1] = r[1] /\ p[2] < r[2])

(***************************************************************************)
(* C07  comparisons                                                        *)
(***************************************************************************)
Scalar(v) == v.t \in {"num", "date", "txt", "bool", "blank"}
Rank(v) == IF v.t \in {"num", "date"} THEN 0 ELSE IF v.t = "txt" THEN 1 ELSE 2

RECURSIVE SeqLt(_, _)
SeqLt(s, u) == IF u = <<>> THEN FALSE
               ELSE IF s = <<>> THEN TRUE
               ELSE IF s[1] < u[1] THEN TRUE
               ELSE IF s[1] > u[1] THEN FALSE
               ELSE SeqLt(Tail(s), Tail(u))

ConvBlank(a, other) ==
  IF a.t # "blank" THEN a
  ELSE IF other.t \in {"num", "date"} THEN IntV(0)
  ELSE IF other.t = "txt" THEN Txt(<<>>)
  ELSE IF other.t = "bool" THEN Bool(FALSE)
  ELSE a

(* is the order of a and b fixed by the property?                          *)
CmpDefined(a, b) ==
  /\ Scalar(a) /\ Scalar(b)
  /\ (a.t = "date" /\ b.t \in {"num", "blank"}) => DateSpecified(a)
  /\ (b.t = "date" /\ a.t \in {"num", "blank"}) => DateSpecified(b)
  /\ (a.t = "date" /\ b.t = "num") => MsOK(QOf(b))
  /\ (b.t = "date" /\ a.t = "num") => MsOK(QOf(a))
  /\ (a.t = "num" /\ b.t = "num") => (AbsI(a.n) <= 2000000000 \div b.d /\ AbsI(b.n) <= 2000000000 \div a.d)   \* cross-multiplication stays in 32 bits

NumPos(v) == IF v.t = "date" THEN PosOfDate(v) ELSE PosOfQ(QOf(v))

CmpLt(a0, b0) ==
  LET a == ConvBlank(a0, b0)
      b == ConvBlank(b0, a0)
  IN IF a.t = "blank" THEN FALSE        \* both blank
     ELSE IF Rank(a) # Rank(b) THEN Rank(a) < Rank(b)
     ELSE IF Rank(a) = 0
          THEN IF a.t = "num" /\ b.t = "num" THEN QLt(QOf(a), QOf(b))
               ELSE PosLt(NumPos(a), NumPos(b))
     ELSE IF Rank(a) = 1 THEN SeqLt(a.s, b.s)
     ELSE (~a.b) /\ b.b

CmpEq(a0, b0) ==
  LET a == ConvBlank(a0, b0)
      b == ConvBlank(b0, a0)
  IN IF a.t = "blank" THEN TRUE
     ELSE IF Rank(a) # Rank(b) THEN FALSE
     ELSE IF Rank(a) = 0
          THEN IF a.t = "num" /\ b.t = "num" THEN QEq(QOf(a), QOf(b))
               ELSE NumPos(a) = NumPos(b)
     ELSE IF Rank(a) = 1 THEN a.s = b.s
     ELSE a.b = b.b

CmpOps == {"<", ">", "=", "<=", ">=", "<>"}

CmpAns(op, a, b) ==
  CASE op = "<"  -> CmpLt(a, b)
    [] op = ">"  -> CmpLt(b, a)
    [] op = "="  -> CmpEq(a, b)
    [] op = "<=" -> CmpLt(a, b) \/ CmpEq(a, b)
    [] op = ">=" -> CmpLt(b, a) \/ CmpEq(a, b)
    [] op = "<>" -> ~CmpEq(a, b)

(* with strict error propagation (C08): the left error wins                *)
CmpExpect(op, a, b) ==
  IF IsErr(a) THEN EVal(a)
  ELSE IF IsErr(b) THEN EVal(b)
  ELSE IF IsUnspec(a) \/ IsUnspec(b) THEN EAny
  ELSE IF CmpDefined(a, b) THEN EVal(Bool(CmpAns(op, a, b)))
  ELSE EAny

(***************************************************************************)
(* C06  arithmetic                                                         *)
(***************************************************************************)
ArithOps == {"+", "-", "*", "/"}

(* ISO date text  YYYY-MM-DD  (the only date text the generators produce)  *)
IsoDate(s) ==
  /\ Len(s) = 10 /\ s[5] = 45 /\ s[8] = 45
  /\ \A i \in {1, 2, 3, 4, 6, 7, 9, 10} : IsDigitC(s[i])
  /\ ValidCivil(DigitsVal(SubSeq(s, 1, 4)), DigitsVal(SubSeq(s, 6, 7)), DigitsVal(SubSeq(s, 9, 10)))
IsoDateVal(s) == Date(DigitsVal(SubSeq(s, 1, 4)), DigitsVal(SubSeq(s, 6, 7)),
                      DigitsVal(SubSeq(s, 9, 10)), 0)

(* "plain" text: certainly neither a number nor a date for any parser:     *)
(* non-empty, letters a-z / A-Z only is too weak (month names, "inf",      *)
(* "nan", "e"), so plain text is text containing a character from          *)
(* {# ! ? _ = % $ @ ~ ^ |} (no numeral and no date notation uses them; the   *)
(* date reader was probed with each) or starting with "zz"/"qq".            *)
TextIsPlain(s) ==
  \/ \E i \in 1..Len(s) : s[i] \in {35, 33, 63, 95, 61, 37, 36, 64, 126, 94, 124}
  \/ (Len(s) >= 2 /\ s[1] = s[2] /\ s[1] \in {122, 113})

(* Operand classes: "num" (acts through a rational), "date", "text" (other *)
(* text: #VALUE!), "unspec" (no property fixes how it acts)                *)
OperandClass(v) ==
  CASE v.t = "num" -> "num"
    [] v.t = "bool" -> "num"
    [] v.t = "blank" -> "num"
    [] v.t = "date" -> IF DateSpecified(v) THEN "date" ELSE "unspec"
    [] v.t = "txt" -> IF NumericText(v.s).ok THEN "num"
                      ELSE IF IsoDate(v.s)
                           THEN (IF DateSpecified(IsoDateVal(v.s)) THEN "date" ELSE "unspec")
                           ELSE IF TextIsPlain(v.s) THEN "text" ELSE "unspec"
    [] OTHER -> "unspec"

NumericQ(v) ==
  CASE v.t = "num" -> QOf(v)
    [] v.t = "bool" -> QI(IF v.b THEN 1 ELSE 0)
    [] v.t = "blank" -> QI(0)
    [] v.t = "txt" -> IF NumericText(v.s).ok THEN NumericText(v.s).q ELSE SerialQ(IsoDateVal(v.s))
    [] v.t = "date" -> SerialQ(v)

(* keep TLC's 32-bit arithmetic safe: products of big numerators are left  *)
(* unspecified instead of overflowing                                      *)
Small(q) == AbsI(q.n) <= 40000 /\ q.d <= 40000
MaxI(p, r) == IF p >= r THEN p ELSE r
SafeFor(op, x, y) ==
  IF op \in {"+", "-"}
  THEN /\ x.d <= 40000 /\ y.d <= 40000
       /\ AbsI(x.n) <= 1000000000 \div y.d
       /\ AbsI(y.n) <= 1000000000 \div x.d
  ELSE LET my == MaxI(MaxI(AbsI(y.n), y.d), 1) IN
       /\ AbsI(x.n) <= 2000000000 \div my
       /\ x.d <= 2000000000 \div my

QOp(op, x, y) == CASE op = "+" -> QAdd(x, y) [] op = "-" -> QSub(x, y)
                   [] op = "*" -> QMul(x, y) [] op = "/" -> QDiv(x, y)

(* result kind for the combinations the property names                     *)
ResultKind(op, a, b) ==
  IF a.t = "date" /\ b.t \in {"num"} /\ op \in {"+", "-"} THEN "date"
  ELSE IF a.t = "num" /\ b.t = "date" /\ op = "+" THEN "date"
  ELSE IF OperandClass(a) = "date" \/ OperandClass(b) = "date" THEN "either"
  ELSE "num"

ScalarArith(op, a, b) ==
  LET ca == OperandClass(a)
      cb == OperandClass(b)
  IN IF ca = "unspec" \/ cb = "unspec" THEN EAny
     ELSE IF ca = "text" \/ cb = "text"
          THEN (IF op = "/" /\ cb = "num" /\ NumericQ(b).n = 0 THEN EErrs({"#VALUE!", "#DIV/0!"})
                ELSE EErrs({"#VALUE!"}))
     ELSE LET x == NumericQ(a)
              y == NumericQ(b)
          IN IF op = "/" /\ y.n = 0 THEN EErrs({"#DIV/0!"})
             ELSE IF ~SafeFor(op, x, y) THEN EAny
             ELSE LET r == QOp(op, x, y)
                      kind == ResultKind(op, a, b)
                  IN IF r.d > 100000 THEN EAny     \* beyond what a recorded float can be snapped onto
                     ELSE IF kind # "num" /\ QFloor(r) >= LastDay + 1 THEN EAny   \* no date after 9999-12-31
                     ELSE IF kind = "num" THEN EVal(NumQ(r))
                     ELSE [k |-> "ser", q |-> r, kind |-> kind]

(* an array of element expectations; if one element is unspecified the real   *)
(* evaluation may give up on the whole array there                           *)
ArrE(es) == IF \E i \in 1..Len(es) : es[i].k = "any" THEN EAny ELSE [k |-> "arr", a |-> es]

RECURSIVE ArithExpect(_, _, _)
ArithExpect(op, a, b) ==
  IF IsErr(a) THEN EVal(a)
  ELSE IF IsErr(b) THEN EVal(b)
  ELSE IF IsUnspec(a) \/ IsUnspec(b) THEN EAny
  ELSE IF IsArr(a) /\ IsArr(b)
       THEN IF Len(a.a) = Len(b.a)
            THEN ArrE([i \in 1..Len(a.a) |-> ArithExpect(op, a.a[i], b.a[i])])
            ELSE IF Len(a.a) = 1 \/ Len(b.a) = 1 THEN EAny   \* one-element arrays: see DESIGN C06
            ELSE EErrs({"#VALUE!"})
  ELSE IF IsArr(a) THEN ArrE([i \in 1..Len(a.a) |-> ArithExpect(op, a.a[i], b)])
  ELSE IF IsArr(b) THEN ArrE([i \in 1..Len(b.a) |-> ArithExpect(op, a, b.a[i])])
  ELSE ScalarArith(op, a, b)

(***************************************************************************)
(* C06  concatenation                                                      *)
(***************************************************************************)
TextOfDefined(v) == v.t \in {"txt", "blank"} \/ (v.t = "num" /\ v.d = 1)
TextOf(v) == IF v.t = "txt" THEN v.s ELSE IF v.t = "blank" THEN <<>> ELSE IntText(v.n)

ConcatExpect(a, b) ==
  IF IsErr(a) THEN EVal(a)
  ELSE IF IsErr(b) THEN EVal(b)
  ELSE IF TextOfDefined(a) /\ TextOfDefined(b) THEN EVal(Txt(TextOf(a) \o TextOf(b)))
  ELSE EAny

(* unary minus *)
NegExpect(a) ==
  IF IsErr(a) THEN EVal(a)
  ELSE IF a.t = "num" THEN EVal(NumQ(QNeg(QOf(a))))
  ELSE IF a.t = "bool" THEN EVal(IntV(IF a.b THEN -1 ELSE 0))
  ELSE EAny

(***************************************************************************)
(* Does an observed value satisfy an expectation?                          *)
(***************************************************************************)
SameValue(x, y) ==      \* x expected, y observed; numbers by value, TRUE/1 distinct
  IF x.t # y.t THEN FALSE
  ELSE CASE x.t = "num" -> x.n = y.n /\ x.d = y.d
         [] x.t = "txt" -> x.s = y.s
         [] x.t = "bool" -> x.b = y.b
         [] x.t = "blank" -> TRUE
         [] x.t = "err" -> x.c = y.c
         [] x.t = "date" -> x.y = y.y /\ x.mo = y.mo /\ x.d = y.d /\ x.ms = y.ms
         [] x.t = "opq" -> x.r = y.r            \* host objects: identity tag
         [] x.t = "flt" -> x.r = y.r            \* a float the host handed in, passed through untouched: the same spelling
         [] OTHER -> FALSE

RECURSIVE SameDeep(_, _)
SameDeep(x, y) ==
  IF x.t = "arr" /\ y.t = "arr"
  THEN Len(x.a) = Len(y.a) /\ \A i \in 1..Len(x.a) : SameDeep(x.a[i], y.a[i])
  ELSE SameValue(x, y)

QSame(p, r) == p.n = r.n /\ p.d = r.d       \* both in lowest terms: no cross-multiplication (overflow)
(* a recorded date-time within one millisecond of a position (the serial is   *)
(* a binary float: thirds and fifths of a day are not exact)                 *)
PosNear(p, r) == \/ (p[1] = r[1] /\ p[2] - r[2] \in {-1, 0, 1})
                 \/ (p[1] = r[1] + 1 /\ p[2] = 0 /\ r[2] = MsPerDay - 1)
                 \/ (r[1] = p[1] + 1 /\ r[2] = 0 /\ p[2] = MsPerDay - 1)
SerMatches(e, y) ==
  IF e.q.n < 0
  THEN (y.t = "err" /\ y.c = "#NUM!") \/ (e.kind = "either" /\ y.t = "num" /\ QSame(QOf(y), e.q))
  ELSE IF QFloor(e.q) < FirstExcelDay
       THEN y.t = "date" \/ (y.t = "err" /\ y.c = "#NUM!")
                \/ (e.kind = "either" /\ y.t = "num" /\ QSame(QOf(y), e.q))
  ELSE IF QFloor(e.q) >= LastDay + 1
       THEN TRUE                     \* past 31 December 9999: no such date, nothing is required
  ELSE \/ (e.kind = "either" /\ y.t = "num" /\ QSame(QOf(y), e.q))
       \/ (y.t = "date" /\ MsOK(e.q) /\ PosNear(PosOfDate(y), PosOfQ(e.q)))
       \/ (y.t = "date" /\ ~MsOK(e.q) /\ DN(y) \in {QFloor(e.q), QFloor(e.q) + 1})

RECURSIVE Matches(_, _)
Matches(e, y) ==
  CASE e.k = "any" -> TRUE
    [] e.k = "val" -> SameDeep(e.v, y)
    [] e.k = "errs" -> y.t = "err" /\ y.c \in e.cs
    [] e.k = "ser" -> SerMatches(e, y)
    [] e.k = "arr" -> y.t = "arr" /\ Len(y.a) = Len(e.a) /\ \A i \in 1..Len(e.a) : Matches(e.a[i], y.a[i])

(* An outcome record [res, err] of parse against an expectation for the    *)
(* formula's value: an error value at the top is reported under err with   *)
(* an empty result.                                                        *)
TopValue(out) == IF out.err # "" THEN Err(out.err) ELSE out.res
OutcomeMatches(e, out) ==
  /\ Matches(e, TopValue(out))
  /\ (out.err # "" => out.res.t = "blank")
  /\ (out.err = "" => out.res.t # "err")       \* an error that reaches the top is reported under error, never as the result
=============================================================================
