----------------------------- MODULE XLLexShare -----------------------------
(***************************************************************************)
(* Mechanism-level model of token supply (C03, C02).  An evaluation        *)
(* (activity) reads its formula's tokens one at a time from a lexer        *)
(* cursor.  Who owns the cursor is the design decision:                    *)
(*   "process_global"  one cursor for the whole process (what ply does     *)
(*                     when yacc.parse is not handed a lexer: it falls     *)
(*                     back on the lexer built last) - the pinned code     *)
(*   "per_parser"      one cursor per parser object                        *)
(*   "per_call"        one cursor per parse call                           *)
(* The reference (XLSystem view) is simply: every activity receives its    *)
(* own tokens, in order.  TLC checks that invariant for each Ownership,    *)
(* for nested evaluations (stack discipline: the inner one runs to         *)
(* completion between two token reads of the outer one) and for threads    *)
(* (free interleaving), on the same or on distinct parser objects.         *)
(* The terminal behaviours double as the schedules that the conformance    *)
(* harness enforces on the real code.                                      *)
(***************************************************************************)
EXTENDS Naturals, Sequences, TLC, Json, IOUtils, CSV

CONSTANTS Ownership,    \* see above
          Mode,         \* "nest" | "thread"
          SameParser,   \* BOOLEAN: both activities on one parser object
          Len1, Len2,   \* number of token reads of activity 1 and 2 (incl. end of input)
          Export        \* BOOLEAN

Acts == {1, 2}
ParserOf(a) == IF SameParser THEN "p" ELSE IF a = 1 THEN "p1" ELSE "p2"
NTok(a) == IF a = 1 THEN Len1 ELSE Len2
(* token k of activity a is the pair <<a, k>>: all tokens distinguishable  *)
TokOf(a, k) == <<a, k>>

VARIABLES cur,     \* cursor(s): [owner key -> [src |-> activity whose input is loaded, pos |-> next index]]
          st,      \* [Acts -> "idle" | "run" | "done"]
          got,     \* [Acts -> Seq(token)]  what each activity was handed
          sched    \* history: the order of steps, for replay
vars == <<cur, st, got, sched>>

Key(a) == CASE Ownership = "process_global" -> "G"
            [] Ownership = "per_parser" -> ParserOf(a)
            [] Ownership = "per_call" -> ToString(a)
Keys == {"G", "p", "p1", "p2", "1", "2"}

Init == /\ cur = [k \in Keys |-> [src |-> 0, pos |-> 1]]
        /\ st = [a \in Acts |-> "idle"]
        /\ got = [a \in Acts |-> <<>>]
        /\ sched = <<>>

(* lexer.input(text): load the activity's input into the cursor it uses *)
Begin(a) == /\ st[a] = "idle"
            /\ IF Mode = "nest" THEN (a = 1 \/ (st[1] = "run" /\ got[1] # <<>> /\ Len(got[1]) < NTok(1))) ELSE TRUE
            /\ st' = [st EXCEPT ![a] = "run"]
            /\ cur' = [cur EXCEPT ![Key(a)] = [src |-> a, pos |-> 1]]
            /\ sched' = Append(sched, <<"begin", a>>)
            /\ UNCHANGED got

(* lexer.token(): whatever the cursor points at *)
Tok(a) == /\ st[a] = "run" /\ Len(got[a]) < NTok(a)
          /\ IF Mode = "nest" /\ a = 1 THEN st[2] # "run" ELSE TRUE      \* the outer waits for the inner
          /\ LET c == cur[Key(a)] IN
               /\ got' = [got EXCEPT ![a] = Append(@, IF c.src = 0 \/ c.pos > NTok(c.src)
                                                       THEN <<0, 0>>       \* end of input
                                                       ELSE TokOf(c.src, c.pos))]
               /\ cur' = [cur EXCEPT ![Key(a)].pos = @ + 1]
          /\ sched' = Append(sched, <<"tok", a>>)
          /\ UNCHANGED st

End(a) == /\ st[a] = "run" /\ Len(got[a]) = NTok(a)
          /\ st' = [st EXCEPT ![a] = "done"]
          /\ sched' = Append(sched, <<"end", a>>)
          /\ UNCHANGED <<cur, got>>

Next == \E a \in Acts : Begin(a) \/ Tok(a) \/ End(a)
Spec == Init /\ [][Next]_vars

(* the reference: each finished evaluation saw exactly its own tokens     *)
Isolation == \A a \in Acts : st[a] = "done" => got[a] = [k \in 1..NTok(a) |-> TokOf(a, k)]

Terminal == \A a \in Acts : st[a] = "done"
ExportInv == (Export /\ Terminal) => CSVWrite("%1$s", <<ToJson([sched |-> sched])>>, IOEnv.CASE_FILE)
=============================================================================
