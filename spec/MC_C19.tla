------------------------------- MODULE MC_C19 -------------------------------
(* C19 on the specification: column letters <-> indices is a bijection in   *)
(* (length, alphabetical) order over every label of 1..MaxLen letters, rows *)
(* round-trip, and Shape/Recompose round-trips over generated labels.       *)
EXTENDS XLCell

CONSTANT NCols      \* number of column indices to sweep (475254 = all 1..4-letter labels)

Block == 2048
VARIABLES blk, i
vars == <<blk, i>>
Init == blk \in 0..((NCols - 1) \div Block) /\ i = blk * Block
Next == /\ i + 1 < NCols /\ i + 1 < (blk + 1) * Block
        /\ i' = i + 1 /\ blk' = blk
Spec == Init /\ [][Next]_vars

RoundTrip == ColIndex(ColLabel(i)) = i
LowerSame == ColIndex(LowerS(ColLabel(i))) = i
Ordered == i + 1 < NCols => LabelLt(ColLabel(i), ColLabel(i + 1))
WellFormed == AllLetters(ColLabel(i)) /\ UpperS(ColLabel(i)) = ColLabel(i)
RowRound == /\ RowIndex(RowLabel(i)) = i
            /\ RowLabel(i)[1] # 48
(* written labels built from this column and a row derived from i, all $   *)
(* patterns, both cases                                                    *)
Written(ca, ra, low) ==
  (IF ca THEN <<36>> ELSE <<>>) \o (IF low THEN LowerS(ColLabel(i)) ELSE ColLabel(i))
     \o (IF ra THEN <<36>> ELSE <<>>) \o RowLabel((i * 4001) % 1048576)
ShapeRound ==
  \A ca \in BOOLEAN, ra \in BOOLEAN, low \in BOOLEAN :
     LET w == Written(ca, ra, low)
         p == Shape(w)
     IN /\ IsLabel(w)
        /\ p.cabs = ca /\ p.rabs = ra
        /\ ColIndex(p.letters) = i
        /\ RowIndex(p.digits) = (i * 4001) % 1048576
        /\ Recompose(p) = Written(ca, ra, FALSE)
=============================================================================
