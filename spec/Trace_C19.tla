------------------------------ MODULE Trace_C19 ------------------------------
(* Validates hotxlfp.helper.cell against XLCell (C19).  Observation kinds:   *)
(*  "col"  in.i            out.label, out.back, out.backlower                *)
(*  "row"  in.i            out.label, out.back                               *)
(*  "ext"  in.s (written)  out.n (#parts), out.ri, out.rabs, out.ci,         *)
(*                         out.cabs, out.re (recomposed label)               *)
EXTENDS TraceKit, XLCell
CONSTANT OpenDevs

ColOK(o) == /\ o.out.label = ColLabel(o.in.i)
            /\ o.out.back = o.in.i
            /\ o.out.backlower = o.in.i
RowOK(o) == /\ o.out.label = RowLabel(o.in.i)
            /\ o.out.back = o.in.i

ExtClauses(o) ==
  LET s == o.in.s
      p == Shape(s)
  IN IF IsLabel(s)
     THEN (IF o.out.n # 2 THEN <<"parts">> ELSE <<>>)
          \o (IF o.out.n = 2 /\ o.out.ri # RowIndex(p.digits) THEN <<"row_index">> ELSE <<>>)
          \o (IF o.out.n = 2 /\ o.out.ci # ColIndex(p.letters) THEN <<"col_index">> ELSE <<>>)
          \o (IF o.out.n = 2 /\ (o.out.rabs # p.rabs \/ o.out.cabs # p.cabs) THEN <<"abs_markers">> ELSE <<>>)
          \o (IF o.out.n = 2 /\ o.out.re # Recompose(p) THEN <<"recompose">> ELSE <<>>)
     ELSE IF LabelUnspecified(s) THEN <<>>
     ELSE (IF o.out.n # 0 THEN <<"nonlabel_decomposed">> ELSE <<>>)

Verdict(o) ==
  CASE o.kind = "col" -> IF ColOK(o) THEN <<"ok">> ELSE <<"bad", "column">>
    [] o.kind = "row" -> IF RowOK(o) THEN <<"ok">> ELSE <<"bad", "row">>
    [] o.kind = "ext" -> IF ExtClauses(o) = <<>> THEN <<"ok">> ELSE <<"bad">> \o ExtClauses(o)

Inv == PrintT(<<"V", O.id>> \o Verdict(O))
=============================================================================
