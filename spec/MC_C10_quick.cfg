SPECIFICATION Spec
CONSTANTS
  Full = FALSE
  Builtins = {"SUM"}
INVARIANT OneEventPerReference
INVARIANT EventsWellFormed
INVARIANT CornerOrderIrrelevant
INVARIANT SetterRule
INVARIANT ExportInv
CHECK_DEADLOCK FALSE
