------------------------------ MODULE Trace_C01 ------------------------------
(* C01: every call of Parser.parse recorded by the drivers.  Observation:      *)
(*  [id, kind, raised, timed_out, out |-> [keys, res, err, errkind],           *)
(*   spec |-> TRUE/FALSE, ast, env]                                            *)
(* Total verdict: the call returned (no exception escaped, step budget kept),  *)
(* the record has exactly the entries error and result, error is empty or one  *)
(* of the nine codes, error set => result empty, result is not an error object;*)
(* and where the case is inside the specified language (spec = TRUE) the       *)
(* outcome is the one XLEval gives.                                            *)
EXTENDS TraceKit, XLEval
CONSTANT OpenDevs

WellFormed(out) ==
  /\ out.keys = <<"error", "result">>
  /\ out.errkind \in {"none", "str"}
  /\ (out.errkind = "none" => out.err = "")
  /\ (out.errkind = "str" => out.err \in Codes)
  /\ (out.err # "" => out.res.t = "blank")
  /\ out.res.t # "err"

Failing(o) ==
  (IF o.raised THEN <<"exception_escaped">> ELSE <<>>)
  \o (IF o.timed_out THEN <<"step_budget_exceeded">> ELSE <<>>)
  \o (IF ~o.raised /\ ~o.timed_out /\ ~WellFormed(o.out) THEN <<"record_not_well_formed">> ELSE <<>>)
  \o (IF ~o.raised /\ ~o.timed_out /\ o.spec /\ ~OutcomeMatchesX(TopExpect(o.ast, o.env), o.out)
      THEN <<"value">> ELSE <<>>)

DevHolds(d, o) == FALSE
Verdict(o) == LET f == Failing(o) IN
  IF f = <<>> THEN <<"ok">>
  ELSE LET ds == {d \in OpenDevs : DevHolds(d, o)}
       IN IF ds # {} THEN <<"dev", CHOOSE d \in ds : TRUE>> ELSE <<"bad">> \o f
Inv == PrintT(<<"V", O.id>> \o Verdict(O))
=============================================================================
