SPECIFICATION Spec
CONSTANTS
  Deep = TRUE
  Builtins = {"SUM", "NA", "ISERROR", "ISERR", "ISNA", "ERROR.TYPE", "IFERROR", "IFNA", "IF", "ABS"}
INVARIANT TrapLaws
INVARIANT Strict
INVARIANT ExportInv
CHECK_DEADLOCK FALSE
