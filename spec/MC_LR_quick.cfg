SPECIFICATION Spec
CONSTANTS
  MaxToks = 7
  Ops = {"+", "-", "*", "/", "&", "=", "<>", "<", ">", "<=", ">="}
  LeafForms = {"n"}
  MaxArgs = 0
INVARIANT Check
CHECK_DEADLOCK FALSE
