------------------------------- MODULE MC_LR --------------------------------
(***************************************************************************)
(* The implemented LR automaton against the declarative reading (C04).     *)
(*                                                                         *)
(* Trees with explicit parenthesis nodes are enumerated in Polish notation *)
(* one symbol per step.  Every complete tree is rendered to token types;   *)
(* when the tree is the usual reading of its own rendering (XLLR!Reading   *)
(* = "ok") the automaton taken from the live parser must accept the        *)
(* rendering and build exactly that tree.  Where the statement leaves the  *)
(* reading open (& against + - * /) nothing is required.  Disagreements    *)
(* are printed - not raised - so that one run lists them all; the driver   *)
(* confirms each on the real parser before it reports anything.            *)
(***************************************************************************)
EXTENDS XLLR, Integers, TLC

CONSTANTS MaxToks,       \* bound on the length of the rendering
          Ops,           \* binary operators used
          LeafForms,     \* leaf forms used
          MaxArgs        \* calls/arrays with 1..MaxArgs arguments (0: none)

VARIABLES pre, need
vars == <<pre, need>>

(* Polish prefix -> [t, rest] *)
RECURSIVE FromP(_)
RECURSIVE ArgsP(_, _)
ArgsP(p, n) == IF n = 0 THEN [ts |-> <<>>, rest |-> p]
               ELSE LET a == FromP(p) b == ArgsP(a.rest, n - 1) IN [ts |-> <<a.t>> \o b.ts, rest |-> b.rest]
FromP(p) ==
  LET h == Head(p) IN
  IF h.s = "leaf" THEN [t |-> [k |-> "leaf", f |-> h.f], rest |-> Tail(p)]
  ELSE IF h.s = "neg" THEN LET a == FromP(Tail(p)) IN [t |-> [k |-> "neg", e |-> a.t], rest |-> a.rest]
  ELSE IF h.s = "paren" THEN LET a == FromP(Tail(p)) IN [t |-> [k |-> "paren", e |-> a.t], rest |-> a.rest]
  ELSE IF h.s = "call" THEN LET a == ArgsP(Tail(p), h.n) IN [t |-> [k |-> "call", args |-> a.ts], rest |-> a.rest]
  ELSE IF h.s = "arr" THEN LET a == ArgsP(Tail(p), h.n) IN [t |-> [k |-> "arr", args |-> a.ts], rest |-> a.rest]
  ELSE LET a == FromP(Tail(p)) b == FromP(a.rest)
       IN [t |-> [k |-> "bin", op |-> h.op, l |-> a.t, r |-> b.t], rest |-> b.rest]

LeafLen(f) == Len(LeafToks(f))
(* tokens a symbol contributes by itself, and how many operands it still needs *)
Own(h) == CASE h.s = "leaf" -> LeafLen(h.f) [] h.s = "neg" -> 1 [] h.s = "paren" -> 2
            [] h.s = "call" -> 3 + (h.n - 1) [] h.s = "arr" -> 2 + (h.n - 1) [] OTHER -> 1
Arity(h) == CASE h.s = "leaf" -> 0 [] h.s \in {"neg", "paren"} -> 1 [] h.s \in {"call", "arr"} -> h.n [] OTHER -> 2

RECURSIVE OwnSum(_)
OwnSum(p) == IF p = <<>> THEN 0 ELSE Own(Head(p)) + OwnSum(Tail(p))
(* every pending operand needs at least one token *)
Budget(p, nd) == OwnSum(p) + nd <= MaxToks

Sym(s, f, op, n) == [s |-> s, f |-> f, op |-> op, n |-> n]
Symbols == {Sym("leaf", f, "", 0) : f \in LeafForms} \cup {Sym("neg", "", "", 0), Sym("paren", "", "", 0)}
           \cup {Sym("bin", "", o, 0) : o \in Ops}
           \cup {Sym(c, "", "", n) : c \in {"call", "arr"}, n \in 1..MaxArgs}

Init == pre = <<>> /\ need = 1
Gen == /\ need > 0
       /\ \E h \in Symbols :
            /\ pre' = Append(pre, h)
            /\ need' = need - 1 + Arity(h)
            /\ Budget(pre', need')
Next == Gen
Spec == Init /\ [][Next]_vars

Tree == FromP(pre).t
Toks == TokensOf(Tree, "COMMA")

Agrees ==
  LET r == LRParse(Toks) IN
  IF Reading(Tree) # "ok" THEN TRUE
  ELSE IF r.ok /\ r.t = Tree THEN TRUE
  ELSE PrintT(<<"LRDIS", Toks, Tree, r>>)

Check == (need = 0) => Agrees
=============================================================================
