------------------------------ MODULE Trace_C07 ------------------------------
(* Validates recorded comparisons of the real library against XLOps (C07).   *)
(* Observation: [id, in |-> [op, a, b], out |-> [res, err, ...]]             *)
EXTENDS TraceKit, XLOps

CONSTANT OpenDevs       \* names of open known findings (known_findings.txt)

Conform(o) == OutcomeMatches(CmpExpect(o.in.op, o.in.a, o.in.b), o.out)

(* Known finding: a logical compared with a number or date is ordered as    *)
(* the number 1/0 instead of above every number and text.                   *)
AsNumber(v) == IF v.t = "bool" THEN IntV(IF v.b THEN 1 ELSE 0) ELSE v
DevLogicalAsNumber(o) ==
  /\ {o.in.a.t, o.in.b.t} \in {{"bool", "num"}, {"bool", "date"}}
  /\ CmpDefined(AsNumber(o.in.a), AsNumber(o.in.b))
  /\ OutcomeMatches(EVal(Bool(CmpAns(o.in.op, AsNumber(o.in.a), AsNumber(o.in.b)))), o.out)

DevHolds(d, o) == CASE d = "DevLogicalAsNumber" -> DevLogicalAsNumber(o)
                    [] OTHER -> FALSE

(* the consistency laws on the recorded answers themselves (no oracle): kind "laws" *)
T(v) == v.t = "bool" /\ v.b
IsB(v) == v.t = "bool"
LawClauses(o) ==
  LET r == o.r IN
  IF ~(IsB(r.lt) /\ IsB(r.eq) /\ IsB(r.gt) /\ IsB(r.le) /\ IsB(r.ge) /\ IsB(r.ne) /\ IsB(r.rlt) /\ IsB(r.rgt) /\ IsB(r.req))
  THEN <<"not_a_logical">>
  ELSE (IF (T(r.lt) /\ ~T(r.eq) /\ ~T(r.gt)) \/ (~T(r.lt) /\ T(r.eq) /\ ~T(r.gt)) \/ (~T(r.lt) /\ ~T(r.eq) /\ T(r.gt))
        THEN <<>> ELSE <<"not_exactly_one_of_lt_eq_gt">>)
       \o (IF T(r.le) = (T(r.lt) \/ T(r.eq)) /\ T(r.ge) = (T(r.gt) \/ T(r.eq)) /\ T(r.ne) = ~T(r.eq) THEN <<>> ELSE <<"derived_operators">>)
       \o (IF T(r.lt) = T(r.rgt) /\ T(r.gt) = T(r.rlt) /\ T(r.eq) = T(r.req) THEN <<>> ELSE <<"converse">>)

(* transitivity on a triple of non-blank values, on the recorded answers (no oracle) *)
Law3Clauses(o) ==
  LET r == o.r IN
  IF ~(IsB(r.ab_eq) /\ IsB(r.bc_eq) /\ IsB(r.ac_eq) /\ IsB(r.ab_lt) /\ IsB(r.bc_lt) /\ IsB(r.ac_lt)) THEN <<"not_a_logical">>
  ELSE (IF T(r.ab_eq) /\ T(r.bc_eq) /\ ~T(r.ac_eq) THEN <<"equality_not_transitive">> ELSE <<>>)
       \o (IF T(r.ab_lt) /\ T(r.bc_lt) /\ ~T(r.ac_lt) THEN <<"order_not_transitive">> ELSE <<>>)
       \o (IF (T(r.ab_eq) /\ T(r.bc_lt) /\ ~T(r.ac_lt)) \/ (T(r.ab_lt) /\ T(r.bc_eq) /\ ~T(r.ac_lt)) THEN <<"order_not_compatible_with_equality">> ELSE <<>>)

(* a date against the serial the library itself gives for it (N): equal to it, and strictly between serial - 1/2 and serial + 1/2 *)
SelfSerialClauses(o) ==
  LET r == o.r IN
  IF ~(IsB(r.eq) /\ IsB(r.lt) /\ IsB(r.gt) /\ IsB(r.below) /\ IsB(r.above)) THEN <<"not_a_logical">>
  ELSE (IF T(r.eq) /\ ~T(r.lt) /\ ~T(r.gt) THEN <<>> ELSE <<"date_differs_from_its_own_serial">>)
       \o (IF T(r.below) /\ T(r.above) THEN <<>> ELSE <<"date_not_between_the_neighbours_of_its_serial">>)

(* two texts with a common beginning of any length (only its length is recorded) and short different ends: they order as *)
(* their ends do                                                                                                        *)
LongTextClauses(o) ==
  LET r == o.r IN
  IF ~(IsB(r.lt) /\ IsB(r.eq) /\ IsB(r.gt)) THEN <<"not_a_logical">>
  ELSE IF T(r.lt) = SeqLt(o.ta, o.tb) /\ T(r.gt) = SeqLt(o.tb, o.ta) /\ T(r.eq) = (o.ta = o.tb) THEN <<>>
  ELSE <<"long_text_order">>

Verdict(o) == IF "kind" \in DOMAIN o /\ o.kind = "longtext"
              THEN (IF LongTextClauses(o) = <<>> THEN <<"ok">> ELSE <<"bad">> \o LongTextClauses(o))
              ELSE IF "kind" \in DOMAIN o /\ o.kind = "selfserial"
              THEN (IF SelfSerialClauses(o) = <<>> THEN <<"ok">> ELSE <<"bad">> \o SelfSerialClauses(o))
              ELSE IF "kind" \in DOMAIN o /\ o.kind = "laws3"
              THEN (IF Law3Clauses(o) = <<>> THEN <<"ok">> ELSE <<"bad">> \o Law3Clauses(o))
              ELSE IF "kind" \in DOMAIN o /\ o.kind = "laws"
              THEN (IF LawClauses(o) = <<>> THEN <<"ok">> ELSE <<"bad">> \o LawClauses(o))
              ELSE IF Conform(o) THEN <<"ok">>
              ELSE LET ds == {d \in OpenDevs : DevHolds(d, o)}
                   IN IF ds # {} THEN <<"dev", CHOOSE d \in ds : TRUE>> ELSE <<"bad", "CmpExpect">>

Inv == PrintT(<<"V", O.id>> \o Verdict(O))
=============================================================================
