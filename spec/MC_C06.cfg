SPECIFICATION Spec
INVARIANT Commutative
INVARIANT ErrorRules
INVARIANT ArrayRules
INVARIANT ExportInv
CHECK_DEADLOCK FALSE
