SPECIFICATION Spec
CONSTANTS NCols = 475254
INVARIANT RoundTrip
INVARIANT LowerSame
INVARIANT Ordered
INVARIANT WellFormed
INVARIANT RowRound
INVARIANT ShapeRound
CHECK_DEADLOCK FALSE
