------------------------------ MODULE Trace_C02 ------------------------------
(* C02, the clauses that are about the host's memory and process rather than outcomes ("process": the settings of the  *)
(* interpreter that later evaluations - of any parser - depend on are what they were before):                           *)
(*  "host"    a value supplied by the host (variable value, cell/range setter   *)
(*            value, custom-function result) is the same after the evaluation   *)
(*            as before: [kind, formula, before, after] (deep snapshots)        *)
(*  "census"  live-object counts after N, 2N, 4N, 8N evaluations of one formula *)
(*            on a long-lived parser: [kind, formula, n, series] - growth       *)
(*            between the later points is bounded by a constant independent of N*)
EXTENDS TraceKit, XLOps
CONSTANTS OpenDevs, Slack

HostUnchanged(o) == /\ \A j \in 1..Len(o.before) : SameDeep(o.before[j], o.after[j]) /\ o.before[j] = o.after[j]
                    /\ o.idb = o.ida        \* the same objects in the same places (numbered before the evaluation; 0 = a new object)
Bounded(ser) == /\ ser[3] - ser[2] <= Slack
                /\ ser[4] - ser[3] <= Slack
                /\ ser[4] - ser[2] <= Slack
(* series: gc-tracked objects; blocks: allocated memory blocks (also sees strings, numbers, dates) *)
NoRetention(o) == Bounded(o.series) /\ Bounded(o.blocks)

Verdict(o) ==
  CASE o.kind = "host" -> IF HostUnchanged(o) THEN <<"ok">> ELSE <<"bad", "host_value_mutated">>
    [] o.kind = "process" -> IF o.settings_before = o.settings_after THEN <<"ok">> ELSE <<"bad", "interpreter_setting_changed">>
    [] o.kind = "census" -> IF NoRetention(o) THEN <<"ok">> ELSE <<"bad", "retention_grows_with_evaluations">>
Inv == PrintT(<<"V", O.id>> \o Verdict(O))
=============================================================================
