SPECIFICATION KSpec
INVARIANT Inv
CHECK_DEADLOCK FALSE
