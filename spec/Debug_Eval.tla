------------------------------ MODULE Debug_Eval ------------------------------
(* Not a check: prints what XLEval expects for each observation (tools/explain.py) *)
EXTENDS Trace_Eval
DInv == PrintT(<<"X", O.id, TopExpect(O.ast, O.env), Ev(O.ast, O.env).ev, Verdict(O)>>)
=============================================================================
