SPECIFICATION Spec
CONSTANTS
  Names = {"x", "xy"}
  Cbs = {1, 2}
  OnceGuard = FALSE
  H = 3
  MaxScripted = 1
  MaxScriptLen = 1
  MaxDepth = 1
  Export = FALSE
INVARIANT OnceAtMostOnce
INVARIANT NameIsolation
INVARIANT OrderedDelivery
INVARIANT NothingDropped
PROPERTY OffExact
PROPERTY SnapshotStable
CHECK_DEADLOCK FALSE
