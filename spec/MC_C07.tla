------------------------------- MODULE MC_C07 -------------------------------
(* C07: the comparison order of XLOps is a consistent total order on a pool *)
(* with every type and the awkward neighbours (numeric-looking text, empty  *)
(* text, a number equal to a date serial, dates differing by 1 ms, blank).  *)
(* Every ordered pair is exported for replay on the real code.              *)
EXTENDS XLOps, Json, IOUtils, CSV

S(str) == str   \* code points are written out below

Pool == <<
  Num(-5, 2), IntV(-1), IntV(0), Num(1, 2), IntV(1), IntV(3),
  IntV(43831), Num(87663, 2), IntV(44000),
  Date(2020, 1, 1, 0), Date(2020, 1, 1, 43200000), Date(2020, 1, 1, 43200001),
  Date(1999, 12, 31, 1), Date(2020, 1, 2, 0),
  Txt(<<>>), Txt(<<48>>), Txt(<<49, 48>>), Txt(<<57>>), Txt(<<97>>), Txt(<<97, 98>>),
  Txt(<<98>>), Txt(<<45, 49>>),
  Bool(TRUE), Bool(FALSE), Blank >>

N == Len(Pool)
VARIABLES a, b, c
vars == <<a, b, c>>
(* a, b, c are chosen one per step (0 = not chosen yet) so that the workers *)
(* share the enumeration                                                  *)
Init == a \in 1..N /\ b = 0 /\ c = 0
Next == \/ b = 0 /\ b' \in 1..N /\ UNCHANGED <<a, c>>
        \/ b # 0 /\ c = 0 /\ c' \in 1..N /\ UNCHANGED <<a, b>>
Spec == Init /\ [][Next]_vars

A == Pool[a]
B == Pool[IF b = 0 THEN 1 ELSE b]
C == Pool[IF c = 0 THEN 1 ELSE c]
Lt(x, y) == CmpAns("<", x, y)
Eq(x, y) == CmpAns("=", x, y)
Gt(x, y) == CmpAns(">", x, y)
One(p, q, r) == (p /\ ~q /\ ~r) \/ (~p /\ q /\ ~r) \/ (~p /\ ~q /\ r)

AllDefined == CmpDefined(A, B)
Trichotomy == One(Lt(A, B), Eq(A, B), Gt(A, B))
Derived == /\ CmpAns("<=", A, B) = (Lt(A, B) \/ Eq(A, B))
           /\ CmpAns(">=", A, B) = (Gt(A, B) \/ Eq(A, B))
           /\ CmpAns("<>", A, B) = ~Eq(A, B)
Converse == Lt(A, B) = Gt(B, A)
Transitive == (A.t # "blank" /\ B.t # "blank" /\ C.t # "blank") =>
                /\ (Lt(A, B) /\ Lt(B, C)) => Lt(A, C)
                /\ (Eq(A, B) /\ Eq(B, C)) => Eq(A, C)
                /\ (Lt(A, B) /\ Eq(B, C)) => Lt(A, C)
RankOrder == /\ (Rank(A) < Rank(B) /\ A.t # "blank" /\ B.t # "blank") => Lt(A, B)
BlankRule == A.t = "blank" =>
                /\ (B.t \in {"num", "date"} => Eq(A, B) = Eq(IntV(0), B) /\ Lt(A, B) = Lt(IntV(0), B))
                /\ (B.t = "txt" => Eq(A, B) = (B.s = <<>>) /\ ~Gt(A, B))
                /\ (B.t = "bool" => Eq(A, B) = ~B.b /\ Lt(A, B) = B.b)

ExportInv == (c = 1) => CSVWrite("%1$s", <<ToJson([a |-> A, b |-> B])>>, IOEnv.CASE_FILE)
=============================================================================
