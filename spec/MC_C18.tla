------------------------------- MODULE MC_C18 -------------------------------
(* C18 on the specification: CHOOSE / INDEX / MATCH of XLFuncs over small    *)
(* arrays, all indices around the bounds, sorted arrays with duplicates,     *)
(* wildcard patterns; the inverse law INDEX(a, MATCH(x, a, 0)) = x; every    *)
(* call is exported for replay on the real parser.                           *)
EXTENDS XLFuncs, Json, IOUtils, CSV

CONSTANT MaxLen

Elems == <<IntV(1), IntV(2), IntV(3), Txt(<<97>>), Txt(<<98>>)>>
Nums == <<IntV(1), IntV(2), IntV(3), IntV(5)>>
Txts == <<Txt(<<97>>), Txt(<<97, 98>>), Txt(<<66>>)>>
Pats == <<Txt(<<97>>), Txt(<<65>>), Txt(<<97, 42>>), Txt(<<63>>), Txt(<<42, 98>>), Txt(<<98>>), Txt(<<122>>), Txt(<<97, 63>>), Txt(<<42>>)>>
Idx == <<IntV(-3), IntV(-1), IntV(0), IntV(1), IntV(2), IntV(3), IntV(4), IntV(6), Blank>>
Grid(nr, nc) == Arr([r \in 1..nr |-> Arr([c \in 1..nc |-> IntV(10 * r + c)])])

VARIABLES kind, arr, x, y, done
vars == <<kind, arr, x, y, done>>
Kinds == {"choose", "index1", "index2", "match0n", "match0t", "match1", "matchm1"}
Init == kind \in Kinds /\ arr = <<>> /\ x = 0 /\ y = 0 /\ done = FALSE

ElemPool == CASE kind \in {"choose", "index1"} -> Elems [] kind = "match0t" -> Txts [] OTHER -> Nums
SortedOK(a) == CASE kind = "match1" -> \A i \in 1..(Len(a) - 1) : a[i].n <= a[i + 1].n
                 [] kind = "matchm1" -> \A i \in 1..(Len(a) - 1) : a[i].n >= a[i + 1].n
                 [] OTHER -> TRUE
XPool == CASE kind = "choose" -> <<IntV(-1), IntV(0), IntV(1), IntV(2), IntV(3), IntV(4)>>
           [] kind = "index1" -> Idx
           [] kind = "index2" -> Idx
           [] kind = "match0t" -> Pats
           [] OTHER -> <<IntV(0), IntV(1), IntV(2), IntV(3), IntV(4), IntV(5), IntV(6)>>

Next ==
  \/ /\ ~done /\ x = 0 /\ kind # "index2" /\ Len(arr) < MaxLen
     /\ \E i \in 1..Len(ElemPool) : arr' = Append(arr, ElemPool[i]) /\ SortedOK(arr')
     /\ UNCHANGED <<kind, x, y, done>>
  \/ /\ ~done /\ x = 0 /\ kind = "index2" /\ arr = <<>>
     /\ \E nr \in 1..3, nc \in 1..3 : arr' = Grid(nr, nc).a
     /\ UNCHANGED <<kind, x, y, done>>
  \/ /\ ~done /\ x = 0 /\ arr # <<>>
     /\ x' \in 1..Len(XPool) /\ UNCHANGED <<kind, arr, y, done>>
  \/ /\ ~done /\ x # 0 /\ kind = "index2" /\ y = 0
     /\ y' \in 1..Len(Idx) /\ UNCHANGED <<kind, arr, x, done>>
  \/ /\ ~done /\ x # 0 /\ (kind # "index2" \/ y # 0)
     /\ done' = TRUE /\ UNCHANGED <<kind, arr, x, y>>
Spec == Init /\ [][Next]_vars

F == CASE kind = "choose" -> "CHOOSE" [] kind \in {"index1", "index2"} -> "INDEX" [] OTHER -> "MATCH"
X == XPool[IF x = 0 THEN 1 ELSE x]
Args == CASE kind = "choose" -> <<X>> \o arr
          [] kind = "index1" -> <<Arr(arr), X>>
          [] kind = "index2" -> <<Arr(arr), X, Idx[IF y = 0 THEN 1 ELSE y]>>
          [] kind \in {"match0n", "match0t"} -> <<X, Arr(arr), IntV(0)>>
          [] kind = "match1" -> <<X, Arr(arr), IntV(1)>>
          [] kind = "matchm1" -> <<X, Arr(arr), IntV(-1)>>
E == BuiltinExpect(F, Args)

(* INDEX(a, MATCH(x, a, 0)) = x whenever x occurs *)
Inverse == (done /\ kind = "match0n") =>
   ((\E i \in 1..Len(arr) : arr[i] = X) =>
       (E.k = "val" /\ BuiltinExpect("INDEX", <<Arr(arr), E.v>>) = EVal(X)))
(* never another element: a position outside gives no element *)
NeverAnother == (done /\ kind = "index1" /\ X.t = "num" /\ (X.n < 0 \/ X.n > Len(arr))) => E = EAnyErr
MatchSorted == (done /\ kind = "match1" /\ E.k = "posin") =>
   \A p \in E.ps : arr[p].n <= X.n /\ \A j \in 1..Len(arr) : arr[j].n <= X.n => arr[j].n <= arr[p].n
ExportInv == done => CSVWrite("%1$s", <<ToJson([f |-> F, args |-> Args])>>, IOEnv.CASE_FILE)
=============================================================================
