SPECIFICATION Spec
CONSTANTS
  MaxLen = 4
INVARIANT Inverse
INVARIANT NeverAnother
INVARIANT MatchSorted
INVARIANT ExportInv
CHECK_DEADLOCK FALSE
