SPECIFICATION Spec
CONSTANTS
  CanonResult = TRUE
  GuardStr = TRUE
INVARIANT Total
CHECK_DEADLOCK FALSE
