------------------------------ MODULE Trace_Big ------------------------------
(* Integers beyond TLC's (and a double's) range under + - and * by a small     *)
(* factor (C06: "the result is the exact arithmetic on those values", whether  *)
(* the operand is a number or text spelling one).  Operands and results are    *)
(* signed decimal digit strings; the arithmetic is BigNat's.                   *)
(*   [id, op, a |-> [neg, ds], b |-> [neg, ds] (or k |-> small factor),         *)
(*    out |-> [int, neg, ds], out2 (operands swapped, for plus and times)]     *)
EXTENDS TraceKit, BigNat

Signed(x) == [neg |-> x.neg, m |-> BOfDigits(x.ds)]
NormS(x) == IF x.m = <<>> THEN [neg |-> FALSE, m |-> <<>>] ELSE x
SAdd(A, B) == NormS(IF A.neg = B.neg THEN [neg |-> A.neg, m |-> BAdd(A.m, B.m)]
                    ELSE IF BLt(A.m, B.m) THEN [neg |-> B.neg, m |-> BSub(B.m, A.m)]
                    ELSE [neg |-> A.neg, m |-> BSub(A.m, B.m)])
SNeg(B) == NormS([neg |-> ~B.neg, m |-> B.m])
Expected(o) == CASE o.op = "+" -> SAdd(Signed(o.a), Signed(o.b))
                 [] o.op = "-" -> SAdd(Signed(o.a), SNeg(Signed(o.b)))
                 [] o.op = "*" -> NormS([neg |-> (o.a.neg # (o.k < 0)), m |-> BNorm(BMulAdd(BOfDigits(o.a.ds), IF o.k < 0 THEN -o.k ELSE o.k, 0))])
(* order of signed integers, for the comparison operators (C07: numbers order numerically) *)
SLt(A, B) == IF A.neg /\ ~B.neg THEN TRUE ELSE IF ~A.neg /\ B.neg THEN FALSE
             ELSE IF A.neg THEN BLt(B.m, A.m) ELSE BLt(A.m, B.m)
CmpExpected(o) == LET A == NormS(Signed(o.a)) B == NormS(Signed(o.b)) IN
  CASE o.op = "<" -> SLt(A, B) [] o.op = ">" -> SLt(B, A) [] o.op = "=" -> A = B [] o.op = "<>" -> A # B
    [] o.op = "<=" -> ~SLt(B, A) [] o.op = ">=" -> ~SLt(A, B)
IsCmp(o) == o.op \in {"<", ">", "=", "<>", "<=", ">="}
(* & joins an integer as its digits (C06), whatever its size: o.txt is the observed text, o.suffix the text operand *)
JoinExpected(o) == (IF o.a.neg THEN <<45>> ELSE <<>>) \o o.a.ds \o o.suffix
Same(x, e) == x.int /\ NormS([neg |-> x.neg, m |-> BOfDigits(x.ds)]) = e
(* MATCH(x, items, 0) on integers beyond TLC's range (C18): the 1-based position of the first item equal to x, or #N/A *)
FirstEqual(o) == LET X == NormS(Signed(o.a))
                     hits == {i \in 1..Len(o.items) : NormS(Signed(o.items[i])) = X}
                 IN IF hits = {} THEN 0 ELSE CHOOSE i \in hits : \A j \in hits : i <= j
(* ROUND(x, d) for x = xn/xd (xd a small power of two) with x*10^d beyond TLC's integers, the answer given exactly as a   *)
(* float rn/2^rk: it lies within 0.51 unit of x (half a unit, and the float's own representation error, which is below a  *)
(* hundredth of a unit for x*10^d < 10^13):   200 * 10^d * |rn*xd - xn*2^rk|  <=  102 * 2^rk * xd                        *)
RECURSIVE BShl(_, _)
BShl(a, k) == IF k = 0 THEN a ELSE BShl(BMulAdd(a, 2, 0), k - 1)
RECURSIVE BTimes10(_, _)
BTimes10(a, d) == IF d = 0 THEN a ELSE BTimes10(BMulAdd(a, 10, 0), d - 1)
RoundNear(o) ==
  LET RN == BOfDigits(o.r.nd)
      RD == BOfDigits(o.r.dd)
      XN == BOfDigits(o.xn)
      A == BNorm(BMulAdd(RN, o.xd, 0))
      B == BNorm(BShl(XN, o.rk))
      D == IF BLe(B, A) THEN BSub(A, B) ELSE BSub(B, A)
  IN /\ o.isnum
     /\ BNorm(BShl(<<1>>, o.rk)) = RD              \* the recorded exponent is the denominator's
     /\ o.d >= 0 /\ o.d <= 9 /\ o.xd >= 1 /\ o.xd <= 1024
     /\ (o.r.neg = o.xneg \/ RN = <<>>)
     /\ BLe(BNorm(BMulAdd(BTimes10(D, o.d), 200, 0)), BNorm(BMulAdd(BMulAdd(RD, o.xd, 0), 102, 0)))
Failing(o) ==
  IF o.op = "roundnear" THEN (IF RoundNear(o) THEN <<>> ELSE <<"not_within_half_a_unit">>)
  ELSE IF o.op = "match" THEN (IF o.pos = FirstEqual(o) THEN <<>> ELSE <<"position_of_first_equal_item">>)
  ELSE IF o.op = "&" THEN (IF o.txt = JoinExpected(o) /\ o.txt2 = o.suffix \o (IF o.a.neg THEN <<45>> ELSE <<>>) \o o.a.ds THEN <<>> ELSE <<"digits_joined">>)
  ELSE IF IsCmp(o) THEN (IF o.truth = "TRUE" /\ CmpExpected(o) THEN <<>> ELSE IF o.truth = "FALSE" /\ ~CmpExpected(o) THEN <<>>
                    ELSE <<"numeric_order">>)
  ELSE
  (IF ~Same(o.out, Expected(o)) THEN <<"exact_value">> ELSE <<>>)
  \o (IF o.op \in {"+", "*"} /\ ~Same(o.out2, Expected(o)) THEN <<"swapped_value">> ELSE <<>>)
Verdict(o) == LET f == Failing(o) IN IF f = <<>> THEN <<"ok">> ELSE <<"bad">> \o f
Inv == PrintT(<<"V", O.id>> \o Verdict(O))
=============================================================================
