SPECIFICATION Spec
CONSTANTS
  MaxLen = 3
INVARIANT Inverse
INVARIANT NeverAnother
INVARIANT MatchSorted
INVARIANT ExportInv
CHECK_DEADLOCK FALSE
