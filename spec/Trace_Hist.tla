------------------------------ MODULE Trace_Hist ------------------------------
(* Validates recorded histories of real parser objects against XLParser:      *)
(* registrations change the bindings of the addressed parser only, and every  *)
(* evaluation - first or hundredth, after failures, nested inside a callback  *)
(* of another evaluation or interleaved with one in another thread - has the  *)
(* outcome, events and custom-function calls that XLEval gives for the        *)
(* bindings its parser has at that point.  One history per ndjson line:       *)
(*   [tid, ev |-> << [e |-> "setvar", p, name, v], [e |-> "setfn", p, name, c],*)
(*                   [e |-> "listen", p, kind, sets],                          *)
(*                   [e |-> "parse", p, ast, out, events, calls, checks],      *)
(*                   [e |-> "resolve", name, tries |-> <<[out, events], ...>>] >>] *)
(* Used by C09, C02, C03.                                                      *)
EXTENDS XLParser, Json, IOUtils

Traces == ndJsonDeserialize(IOEnv.TRACE_FILE)

VARIABLES t, l, bad
hvars == <<st, t, l, bad>>

Evs == Traces[t].ev
E == Evs[l]

(* clause checks, as in Trace_Eval *)
RECURSIVE ArgMatches(_, _)
ArgMatches(x, y) ==
  IF IsUnspec(x) THEN TRUE
  ELSE IF IsArr(x) THEN y.t = "arr" /\ Len(y.a) = Len(x.a) /\ \A i \in 1..Len(x.a) : ArgMatches(x.a[i], y.a[i])
  ELSE SameValue(x, y)
EventMatches(x, y) ==
  /\ y.k = x.k
  /\ CASE x.k = "cell" -> y.c = x.c
       [] x.k = "range" -> y.s = x.s /\ y.e = x.e
       [] x.k = "var" -> y.name = x.name
       [] x.k = "fn" -> /\ y.name = x.name /\ Len(y.args) = Len(x.args)
                        /\ \A i \in 1..Len(x.args) : ArgMatches(x.args[i], y.args[i])
Has(o, c) == \E i \in 1..Len(o.checks) : o.checks[i] = c

Failing(o, env) ==
  LET r == Ev(o.ast, env)
      cust == CustomCalls(r.ev, env)
  IN (IF Has(o, "value") /\ ~OutcomeMatchesX(TopExpect(o.ast, env), o.out) THEN <<"value">> ELSE <<>>)
     \* the property's own oracle (C02, C03): the outcome of the same formula with the same bindings when run alone
     \o (IF Has(o, "solo") THEN (IF o.out.res # o.solo.res \/ o.out.err # o.solo.err THEN <<"differs_from_solo">> ELSE <<>>)
         ELSE <<>>)
     \o (IF Has(o, "events") /\ ~(/\ Len(o.events) <= Len(Pub(r.ev))
                                  /\ \A i \in 1..Len(o.events) : EventMatches(Pub(r.ev)[i], o.events[i])
                                  /\ (Len(o.events) = Len(Pub(r.ev)) \/ (r.may /\ o.out.err # "")))
         THEN <<"events">> ELSE <<>>)
     \o (IF Has(o, "calls") /\ ~(/\ Len(o.calls) <= Len(cust)
                                 /\ (Len(o.calls) = Len(cust) \/ (r.may /\ o.out.err # ""))
                                 /\ \A i \in 1..Len(o.calls) :
                                      /\ o.calls[i].name = cust[i].name
                                      /\ Len(o.calls[i].args) = Len(cust[i].args)
                                      /\ \A j \in 1..Len(cust[i].args) : ArgMatches(cust[i].args[j], o.calls[i].args[j]))
         THEN <<"calls">> ELSE <<>>)

HInit == PInit /\ t \in 1..Len(Traces) /\ l = 1 /\ bad = <<>>

HStep ==
  /\ l <= Len(Evs)
  /\ CASE E.e = "setvar" -> IF "raised" \in DOMAIN E      \* registering a value never fails, whatever the value is
                             THEN st' = st /\ bad' = Append(bad, <<l, "registration_raised">>)
                             ELSE SetVariable(E.p, E.name, E.v) /\ bad' = bad
       [] E.e = "setfn" -> IF "raised" \in DOMAIN E
                           THEN st' = st /\ bad' = Append(bad, <<l, "registration_raised">>)
                           ELSE SetFunction(E.p, E.name, E.c) /\ bad' = bad
       [] E.e = "listen" -> SetListeners(E.p, E.kind, E.sets) /\ bad' = bad
       [] E.e = "resolve" ->     \* a documented name: some arity reaches a built-in (callFunction event)
            /\ st' = st
            /\ bad' = IF E.name \in Builtins /\ \E a \in 1..Len(E.tries) :
                              \/ \E j \in 1..Len(E.tries[a].events) :
                                    E.tries[a].events[j].k = "fn" /\ E.tries[a].events[j].name = E.name
                              \/ E.tries[a].out.err \notin {"", "#NAME?"}   \* the built-in ran and failed on these arguments
                      THEN bad ELSE Append(bad, <<l, "resolve">>)
       [] E.e = "parse" -> /\ st' = st
                           /\ LET f == Failing(E, EnvOf(E.p)) IN
                              bad' = IF f = <<>> THEN bad ELSE Append(bad, <<l>> \o f)
  /\ l' = l + 1
  /\ t' = t

HSpec == HInit /\ [][HStep]_hvars

(* total verdict per history, printed when its last event has been consumed *)
Verdict == (l = Len(Evs) + 1) =>
             PrintT(IF bad = <<>> THEN <<"ACC", Traces[t].tid>> ELSE <<"REJ", Traces[t].tid, bad>>)
=============================================================================
