SPECIFICATION Spec
CONSTANTS
  MaxLen = 3
INVARIANT Identities
INVARIANT Relations
INVARIANT SubstLaws
INVARIANT ExportInv
CHECK_DEADLOCK FALSE
