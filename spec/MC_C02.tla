------------------------------- MODULE MC_C02 -------------------------------
(* C02: evaluation is a function of formula and bindings.  Reference: the    *)
(* outcome of a probe after any history of evaluations - successful, failed, *)
(* aborted by raising callbacks - is XLParser!Outcome, which reads the       *)
(* bindings only (no evaluation changes st).  Mechanism: the one piece of    *)
(* state the code keeps across calls besides the lexer cursor (XLLexShare)   *)
(* is the traceback chain hanging off the raised error singletons; tb counts *)
(* it.  With ClearOnEnd = FALSE (pinned code) TLC shows it grows without     *)
(* bound; with TRUE it stays bounded.  Histories are exported for replay.    *)
EXTENDS XLParser, Json, IOUtils, CSV

CONSTANTS H, ClearOnEnd, Export

Kinds == {"ok", "okcells", "syntax", "lexerr", "errlit", "divzero", "unknownvar", "unknownfn",
          "hostexc", "listenerexc", "cellexc", "rangeexc", "fnlistenerexc", "xlraise", "trapped", "empty", "sheet", "othersheet", "datediv", "blankdivdate", "dateplus", "blankminusdate", "bigvalue"}
(* (the replay additionally interleaves re-registrations of variables and functions; their effect on the    *)
(* bindings is the SetVariable / SetFunction action of XLParser, carried by Trace_Hist)                     *)
(* kinds during which an error singleton is raised (and caught somewhere)  *)
Raises == Kinds \ {"ok", "okcells", "empty", "hostexc", "listenerexc", "cellexc", "rangeexc", "fnlistenerexc"}

VARIABLES hist, tb
vars == <<st, hist, tb>>
Init == PInit /\ hist = <<>> /\ tb = 0
Parse(k) == /\ Len(hist) < H
            /\ hist' = Append(hist, k)
            /\ tb' = IF k \in Raises THEN (IF ClearOnEnd THEN 0 ELSE tb + 1) ELSE tb
            /\ UNCHANGED st            \* evaluation changes no binding
Next == \E k \in Kinds : Parse(k)
Spec == Init /\ [][Next]_vars

ProbeAst == [k |-> "bin", op |-> "+", l |-> [k |-> "num", s |-> <<49>>], r |-> [k |-> "var", name |-> "TRUE"]]
(* the probe's outcome is the same in every reachable state *)
OutcomeIsFunction == \A p \in Parsers : Outcome(p, ProbeAst) = EVal(IntV(2))
BindingsUntouched == [][st' = st]_vars
NoRetention == tb <= 1
ExportInv == (Export /\ Len(hist) = H) => CSVWrite("%1$s", <<ToJson([hist |-> hist])>>, IOEnv.CASE_FILE)
=============================================================================
