SPECIFICATION Spec
CONSTANTS
  MaxOps = 4
  Builtins = {"SUM", "ABS"}
INVARIANT RoundTrip
INVARIANT FunctionalAgrees
INVARIANT ValTotal
INVARIANT ExportInv
CHECK_DEADLOCK FALSE
