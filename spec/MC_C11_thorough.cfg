SPECIFICATION Spec
CONSTANTS
  MaxLen = 5
INVARIANT OrderFree
INVARIANT ErrorWinsLaw
INVARIANT SelectionLaws
INVARIANT ExportInv
CHECK_DEADLOCK FALSE
