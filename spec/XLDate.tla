------------------------------ MODULE XLDate ------------------------------
(***************************************************************************)
(* Proleptic Gregorian calendar and the Excel 1900 date system, in integer *)
(* arithmetic only.  "Day number" = days since 1899-12-30, so that from    *)
(* 1 March 1900 on it is the whole part of the Excel serial (C13).         *)
(***************************************************************************)
EXTENDS Integers, Sequences

MsPerDay == 86400000

IsLeap(y) == (y % 4 = 0 /\ y % 100 # 0) \/ y % 400 = 0
DaysInMonth(y, m) == IF m = 2 THEN (IF IsLeap(y) THEN 29 ELSE 28)
                     ELSE IF m \in {4, 6, 9, 11} THEN 30 ELSE 31
ValidCivil(y, m, d) == m \in 1..12 /\ d >= 1 /\ d <= DaysInMonth(y, m)

(* days since 1970-01-01 (Hinnant's algorithm; all operands non-negative   *)
(* for years >= 0, so \div is the mathematical quotient)                   *)
DaysFrom1970(y0, m, d) ==
  LET y == IF m <= 2 THEN y0 - 1 ELSE y0
      era == y \div 400
      yoe == y - era * 400
      mp == IF m > 2 THEN m - 3 ELSE m + 9
      doy == (153 * mp + 2) \div 5 + d - 1
      doe == yoe * 365 + yoe \div 4 - yoe \div 100 + doy
  IN era * 146097 + doe - 719468

DayNumber(y, m, d) == DaysFrom1970(y, m, d) + 25569

CivilFromDayNumber(n) ==
  LET z == n - 25569 + 719468
      era == z \div 146097
      doe == z - era * 146097
      yoe == (doe - doe \div 1460 + doe \div 36524 - doe \div 146096) \div 365
      y == yoe + era * 400
      doy == doe - (365 * yoe + yoe \div 4 - yoe \div 100)
      mp == (5 * doy + 2) \div 153
      d == doy - (153 * mp + 2) \div 5 + 1
      m == IF mp < 10 THEN mp + 3 ELSE mp - 9
  IN [y |-> IF m <= 2 THEN y + 1 ELSE y, mo |-> m, d |-> d]

(* 0 = Monday ... 6 = Sunday.  Day number 2 = 1900-01-01 was a Monday.     *)
WeekdayMon0(n) == (n - 2) % 7

FirstExcelDay == 61            \* 1900-03-01
LastDay == 2958465             \* 9999-12-31
Jan1_1900 == 2                 \* day number of 1900-01-01

(* a date-time value as <<day number, ms>>                                 *)
DN(v) == DayNumber(v.y, v.mo, v.d)
DateLt(a, b) == DN(a) < DN(b) \/ (DN(a) = DN(b) /\ a.ms < b.ms)
DateEq(a, b) == DN(a) = DN(b) /\ a.ms = b.ms
=============================================================================
