----------------------------- MODULE Trace_C20 -----------------------------
(* Validates call logs recorded from the real hotxlfp.Emitter (or Parser)   *)
(* against the reference actions of module Emitter.  One ndjson line per    *)
(* recorded behaviour: [tid |-> n, ev |-> <<event, ...>>], every event a    *)
(* record [e, k, n, cb, x, c]:                                              *)
(*   e = "op"      a public call on/once/off/offcb/emit (k,n,cb,x as in Apply)*)
(*   e = "call"    callback cb entered with args x and context c (a callback *)
(*                 is not told the event name: it is that of the enclosing   *)
(*                 emit, and cb must be in that emit's snapshot)             *)
(*   e = "cbret"   that callback returned                                   *)
(*   e = "emitret" the innermost emit returned                              *)
EXTENDS Emitter, TLC, Json, IOUtils

Traces == ndJsonDeserialize(IOEnv.TRACE_FILE)

VARIABLES t, l
tvars == <<subs, stack, fired, log, nextId, nextEid, t, l>>

Evs == Traces[t].ev
Ev == Evs[l]

TInit == EInit /\ t \in 1..Len(Traces) /\ l = 1

TOp == /\ Ev.e = "op"
       /\ Apply([k |-> Ev.k, n |-> Ev.n, cb |-> Ev.cb, x |-> Ev.x])

TCall == /\ Ev.e = "call"
         /\ InEmit
         /\ Top.args = Ev.x
         /\ \E j \in 1..Len(Top.snap) :
               /\ Top.snap[j].cb = Ev.cb
               /\ Top.snap[j].ctx = Ev.c
               /\ DeliverAt(j)

TCbRet == Ev.e = "cbret" /\ CbReturn
TEmitRet == Ev.e = "emitret" /\ EmitEnd

TStep == /\ l <= Len(Evs)
         /\ (TOp \/ TCall \/ TCbRet \/ TEmitRet)
         /\ l' = l + 1
         /\ t' = t

TSpec == TInit /\ [][TStep]_tvars

(* Total verdicts: ACC when the whole behaviour was explained, REJ with the *)
(* position and the event that no reference action explains.                *)
Verdict ==
  /\ (l = Len(Evs) + 1 /\ stack = <<>>) => PrintT(<<"ACC", Traces[t].tid>>)
  /\ (l = Len(Evs) + 1 /\ stack # <<>>) => PrintT(<<"REJ", Traces[t].tid, l, "unbalanced">>)
  /\ (l <= Len(Evs) /\ ~ENABLED TStep) => PrintT(<<"REJ", Traces[t].tid, l, Ev.e>>)
=============================================================================
