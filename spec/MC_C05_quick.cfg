SPECIFICATION Spec
CONSTANTS
  MaxSlots = 6
  MaxLayout = 4
  Builtins = {"SUM"}
INVARIANT SlotLaw
INVARIANT LitLaw
INVARIANT ArrLaw
INVARIANT ExportInv
CHECK_DEADLOCK FALSE
