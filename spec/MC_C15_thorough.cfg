SPECIFICATION Spec
CONSTANTS
  MaxLen = 4
INVARIANT Identities
INVARIANT Relations
INVARIANT SubstLaws
INVARIANT ExportInv
CHECK_DEADLOCK FALSE
