------------------------------ MODULE Trace_Date ------------------------------
(* C13 / C14: recorded answers of the real date functions, judged against      *)
(* XLDate / XLDateFn.  Observation kinds (field kind), values in the XLValue    *)
(* encoding; r = the array the formula returned:                                *)
(*  "day"     in [n, y, mo, d, nb]  one whole day, day number n, civil y-mo-d   *)
(*  "instant" in [y, mo, d, ms]     a date-time to the millisecond              *)
(*  "time"    in [h, m, s]          TIME parts                                  *)
(*  "iso"     in [y, mo, d, h, m, s] parts read from ISO text                   *)
(*  "year"    in [y, m, d]          DATE with a year below 1900                 *)
(*  "pair"    in [a, b]             two civil dates, DAYS / DATEDIF             *)
(*  "edate"   in [a, k]             EDATE                                       *)
(*  "wtype"   in [n, type]          WEEKDAY with an unsupported numbering       *)
(*  "shift"   in [y, mo, d, ms, n, op]  date-time +- n whole days               *)
EXTENDS TraceKit, XLOps, XLDateFn
CONSTANT OpenDevs

IsN(v, k) == v.t = "num" /\ v.d = 1 /\ v.n = k
IsB(v, b) == v.t = "bool" /\ v.b = b
IsD(v, c, ms) == v.t = "date" /\ v.y = c.y /\ v.mo = c.mo /\ v.d = c.d /\ v.ms = ms
IsE(v, code) == v.t = "err" /\ v.c = code
AnyErr(v) == v.t = "err"
Cl(name, ok) == IF ok THEN <<>> ELSE <<name>>
(* position of a recorded serial on the millisecond grid: exact small rationals *)
(* directly, other floats through the day/ms fields the recorder adds          *)
HasPos(v) == (v.t = "num" /\ MsOK(QOf(v))) \/ (v.t = "flt" /\ "day" \in DOMAIN v)
PosOf(v) == IF v.t = "num" THEN PosOfQ(QOf(v)) ELSE <<v.day, v.ms>>
OnGrid(v) == v.t = "num" \/ v.onms

DayClauses(o) ==
  LET n == o.in.n
      c == CivilFromDayNumber(n)
      r == o.out.a
      nb == o.in.nb       \* day number of the base date the driver subtracts
  IN IF ~(c.y = o.in.y /\ c.mo = o.in.mo /\ c.d = o.in.d) THEN <<"driver_date_disagrees_with_calendar">>
     ELSE IF n < FirstExcelDay
     THEN  \* before 1 March 1900: only monotone and invertible
          Cl("serial_not_increasing", r[4].t = "num" /\ r[18].t = "num" /\ QLt(QOf(r[4]), QOf(r[18])))
          \o Cl("date_round_trip", IsD(r[19], c, 0))
          \* DAYS and subtraction see the serial DATEVALUE reports (whatever it is before 1 March 1900)
          \o Cl("DAYS_sees_serial", r[4].t = "num" /\ r[4].d = 1 /\ IsN(r[6], r[4].n - nb) /\ IsN(r[7], r[4].n - nb) /\ IsN(r[5], r[4].n))
          \o (IF "calendar" \in DOMAIN o.in      \* C14: the calendar functions do not depend on the serial scale
              THEN Cl("parts_of_date", IsN(r[10], c.y) /\ IsN(r[11], c.mo) /\ IsN(r[12], c.d))
                   \o Cl("parts_of_DATE", IsN(r[22], c.y) /\ IsN(r[23], c.mo) /\ IsN(r[24], c.d))
                   \o Cl("WEEKDAY", IsN(r[13], Weekday(n, 1)) /\ IsN(r[14], Weekday(n, 2)) /\ IsN(r[15], Weekday(n, 3))
                                     /\ IsN(r[25], Weekday(n, 2)))
              ELSE <<>>)
     ELSE Cl("ymd_of_serial", IsN(r[1], c.y) /\ IsN(r[2], c.mo) /\ IsN(r[3], c.d))
          \o Cl("DATEVALUE", IsN(r[4], n))
          \o Cl("N", IsN(r[5], n))
          \o Cl("DAYS", IsN(r[6], n - nb))
          \o Cl("date_minus_date", IsN(r[7], n - nb))
          \o Cl("serial_round_trip", IsN(r[8], n))
          \o Cl("DATEVALUE_of_DATE", IsN(r[9], n))
          \o Cl("parts_of_date", IsN(r[10], c.y) /\ IsN(r[11], c.mo) /\ IsN(r[12], c.d))
          \o Cl("WEEKDAY", IsN(r[13], Weekday(n, 1)) /\ IsN(r[14], Weekday(n, 2)) /\ IsN(r[15], Weekday(n, 3)))
          \o Cl("comparison_sees_serial", IsB(r[16], TRUE) /\ IsB(r[17], TRUE))
          \o Cl("serial_not_increasing", n + 1 > LastDay \/ IsN(r[18], n + 1))
          \o Cl("date_round_trip", IsD(r[19], c, 0))
          \o Cl("date_plus_n", IsD(r[20], CivilFromDayNumber(n + o.in.k), 0))
          \o Cl("date_minus_n", n - 7 < FirstExcelDay \/ IsD(r[21], CivilFromDayNumber(n - 7), 0))
          \o Cl("parts_of_DATE", IsN(r[22], c.y) /\ IsN(r[23], c.mo) /\ IsN(r[24], c.d) /\ IsN(r[25], Weekday(n, 2)))
          \* DAYS sees the same serial whether an argument is a date or that date's serial number
          \o Cl("DAYS_of_date_and_serial", IsN(r[26], n - nb) /\ IsN(r[27], n - nb) /\ IsN(r[28], n - nb))
          \* a numbering type that arrives as a float holding 1, 2 or 3 is that type
          \o Cl("WEEKDAY_float_type", IsN(r[29], Weekday(n, IF n % 2 = 1 THEN 2 ELSE 1)) /\ IsN(r[30], Weekday(n, IF n % 2 = 1 THEN 3 ELSE 2)))

InstantClauses(o) ==
  LET c == [y |-> o.in.y, mo |-> o.in.mo, d |-> o.in.d]
      n == DayNumber(c.y, c.mo, c.d)
      r == o.out.a
  IN Cl("date_round_trip_ms", IsD(r[1], c, o.in.ms))
     \o Cl("serial_not_increasing", HasPos(r[2]) /\ HasPos(r[3]) /\ PosLt(PosOf(r[2]), PosOf(r[3])) /\ IsB(r[4], TRUE))
     \o Cl("comparison_sees_serial", IsB(r[11], TRUE) /\ IsB(r[12], TRUE) /\ IsB(r[13], TRUE) /\ IsB(r[14], TRUE))
     \* a date-time against itself and against its own serial, on either side of the operator
     \o Cl("comparison_sees_same_serial_on_both_sides",
            IsB(r[15], TRUE) /\ IsB(r[16], TRUE) /\ IsB(r[17], TRUE) /\ IsB(r[18], FALSE) /\ IsB(r[19], FALSE)
            /\ IsB(r[20], TRUE) /\ IsB(r[21], TRUE) /\ IsB(r[22], TRUE) /\ IsB(r[23], FALSE) /\ IsB(r[24], FALSE))
     \o (IF n >= FirstExcelDay
         THEN Cl("whole_part_of_serial", IsN(r[5], n))
              \o Cl("comparison_sees_serial", IsB(r[6], TRUE) /\ IsB(r[7], o.in.ms = 0) /\ IsB(r[8], o.in.ms > 0)
                                                /\ IsB(r[9], TRUE) /\ IsB(r[10], TRUE))
              \o Cl("fraction_of_serial", HasPos(r[2]) /\ OnGrid(r[2]) /\ PosOf(r[2]) = <<n, o.in.ms>>)
         ELSE <<>>)

Verdict(o) ==
  LET r == IF o.out.t = "arr" THEN o.out.a ELSE <<>>
      f == IF o.out.t # "arr" THEN <<"formula_failed">>
           ELSE CASE o.kind = "day" -> DayClauses(o)
             [] o.kind = "instant" -> InstantClauses(o)
             [] o.kind = "time" -> Cl("TIME_parts", IsN(r[1], o.in.h) /\ IsN(r[2], o.in.m) /\ IsN(r[3], o.in.s))
             [] o.kind = "iso" -> Cl("ISO_text_parts", IsN(r[1], o.in.y) /\ IsN(r[2], o.in.mo) /\ IsN(r[3], o.in.d)
                                       /\ IsN(r[4], o.in.h) /\ IsN(r[5], o.in.m) /\ IsN(r[6], o.in.s))
             [] o.kind = "year" -> Cl("DATE_year_offset", IsN(r[1], 1900 + o.in.y) /\ IsN(r[2], o.in.m) /\ IsN(r[3], o.in.d))
             [] o.kind = "pair" ->
                  LET a == o.in.a
                      b == o.in.b
                      le == CivLe(a, b)
                      same == a = b
                  IN IF le
                     THEN Cl("DAYS", IsN(r[1], DifD(a, b))) \o Cl("DATEDIF_d", IsN(r[2], DifD(a, b)))
                          \o Cl("DATEDIF_m", IsN(r[3], DifM(a, b))) \o Cl("DATEDIF_y", IsN(r[4], DifY(a, b)))
                          \o Cl("DATEDIF_ym", IsN(r[5], DifYM(a, b)))
                          \o Cl("DATEDIF_start_after_end", same \/ (IsE(r[6], "#NUM!") /\ IsE(r[7], "#NUM!")))
                     ELSE Cl("DAYS", IsN(r[1], -DifD(b, a)) \/ IsE(r[1], "#NUM!"))
                          \o Cl("DATEDIF_start_after_end", IsE(r[2], "#NUM!") /\ IsE(r[3], "#NUM!") /\ IsE(r[4], "#NUM!") /\ IsE(r[5], "#NUM!"))
             [] o.kind = "edate" ->
                  LET e == EDate(o.in.a, o.in.k) IN
                  IF e.ok THEN Cl("EDATE", IsD(r[1], e, 0)) ELSE Cl("EDATE_out_of_range", IsE(r[1], "#NUM!"))
             [] o.kind = "wtype" -> Cl("WEEKDAY_type", IsE(r[1], "#NUM!"))
             [] o.kind = "shift" ->      \* a date-time moved by whole days (C06): same time of day, to the millisecond, on the other day
                  LET t == DayNumber(o.in.y, o.in.mo, o.in.d) + (IF o.in.op = "-" THEN -o.in.n ELSE o.in.n)
                      c == CivilFromDayNumber(t)
                      Near(v) == v.t = "date" /\ v.y = c.y /\ v.mo = c.mo /\ v.d = c.d
                                 /\ v.ms - o.in.ms <= 1 /\ o.in.ms - v.ms <= 1
                  IN IF t < FirstExcelDay \/ t > LastDay THEN <<>>
                     ELSE Cl("date_time_moved_by_days", Near(r[1]) /\ Near(r[2]))
  IN IF f = <<>> THEN <<"ok">> ELSE <<"bad">> \o f

Inv == PrintT(<<"V", O.id>> \o Verdict(O))
=============================================================================
