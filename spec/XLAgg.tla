------------------------------- MODULE XLAgg -------------------------------
(***************************************************************************)
(* Aggregates over exact rationals (C11): textbook definitions, criteria   *)
(* (operator + number, bare value, wildcard text) and selection.           *)
(* Items are sequences of rationals [n, d]; generators keep magnitudes     *)
(* inside TLC's 32-bit integers.                                           *)
(***************************************************************************)
EXTENDS XLValue

(* All items are first scaled to integers by a common denominator L (every   *)
(* item's denominator divides L), so sums never cross-multiply denominators. *)
Scalable(xs, L) == \A i \in 1..Len(xs) : L % xs[i].d = 0
Scaled(xs, L) == [i \in 1..Len(xs) |-> xs[i].n * (L \div xs[i].d)]

RECURSIVE ISum(_)
ISum(v) == IF v = <<>> THEN 0 ELSE Head(v) + ISum(Tail(v))
RECURSIVE IInsert(_, _)
IInsert(x, s) == IF s = <<>> THEN <<x>> ELSE IF x <= Head(s) THEN <<x>> \o s ELSE <<Head(s)>> \o IInsert(x, Tail(s))
RECURSIVE ISort(_)
ISort(v) == IF v = <<>> THEN <<>> ELSE IInsert(Head(v), ISort(Tail(v)))

QSumS(xs) == Q(ISum(Scaled(xs, 100)), 100)                      \* denominators divide 100
QMean(xs) == Q(ISum(Scaled(xs, 100)), 100 * Len(xs))
QMin(xs) == Q(ISort(Scaled(xs, 100))[1], 100)
QMax(xs) == Q(ISort(Scaled(xs, 100))[Len(xs)], 100)
QMedian(xs) == LET s == ISort(Scaled(xs, 100))
                   n == Len(xs)
               IN IF n % 2 = 1 THEN Q(s[(n + 1) \div 2], 100) ELSE Q(s[n \div 2] + s[(n \div 2) + 1], 200)
QLarge(xs, k) == Q(ISort(Scaled(xs, 100))[Len(xs) - k + 1], 100)   \* 1 <= k <= Len(xs)

OccOf(v, x) == Cardinality({i \in 1..Len(v) : v[i] = x})
HasUniqueMode(xs) == LET v == Scaled(xs, 100) IN
   \E i \in 1..Len(v) : \A j \in 1..Len(v) : v[i] = v[j] \/ OccOf(v, v[i]) > OccOf(v, v[j])
QMode(xs) == LET v == Scaled(xs, 100) IN
   Q(v[CHOOSE i \in 1..Len(v) : \A j \in 1..Len(v) : v[i] = v[j] \/ OccOf(v, v[i]) > OccOf(v, v[j])], 100)

RECURSIVE QProdS(_)
QProdS(xs) == IF xs = <<>> THEN QI(1) ELSE QMul(Head(xs), QProdS(Tail(xs)))

(* squares: scale by 10; n * sum(v^2) - (sum v)^2 over n(n-1) * 100 *)
SqNum(xs) == LET v == Scaled(xs, 10) IN Len(xs) * ISum([i \in 1..Len(v) |-> v[i] * v[i]]) - ISum(v) * ISum(v)
QVarS(xs) == Q(SqNum(xs), Len(xs) * (Len(xs) - 1) * 100)         \* Len >= 2
QVarP(xs) == Q(SqNum(xs), Len(xs) * Len(xs) * 100)
QAveDev(xs) == LET v == Scaled(xs, 10)
                   n == Len(xs)
               IN Q(ISum([i \in 1..n |-> AbsI(n * v[i] - ISum(v))]), n * n * 10)
RECURSIVE QRecSum(_)
QRecSum(xs) == IF xs = <<>> THEN QI(0) ELSE QAdd(QDiv(QI(1), Head(xs)), QRecSum(Tail(xs)))
QHarMean(xs) == QDiv(QI(Len(xs)), QRecSum(xs))
QSlope(ys, xs) ==          \* ys scaled by 10, xs integers
  LET y == Scaled(ys, 10)
      x == Scaled(xs, 1)
      n == Len(xs)
  IN Q(n * ISum([i \in 1..n |-> x[i] * y[i]]) - ISum(x) * ISum(y), 10 * (n * ISum([i \in 1..n |-> x[i] * x[i]]) - ISum(x) * ISum(x)))
SlopeDefined(ys, xs) == Len(ys) = Len(xs) /\ Len(xs) >= 2 /\
   LET x == Scaled(xs, 1) IN Len(xs) * ISum([i \in 1..Len(x) |-> x[i] * x[i]]) - ISum(x) * ISum(x) # 0

(***************************************************************************)
(* criteria                                                                *)
(***************************************************************************)
RECURSIVE WildM(_, _)
WildM(p, s) ==
  IF p = <<>> THEN s = <<>>
  ELSE IF p[1] = 42 THEN WildM(Tail(p), s) \/ (s # <<>> /\ WildM(p, Tail(s)))
  ELSE IF s = <<>> THEN FALSE
  ELSE (p[1] = 63 \/ p[1] = s[1]) /\ WildM(Tail(p), Tail(s))

OpLen(s) == IF s = <<>> \/ s[1] \notin {60, 61, 62} THEN 0
            ELSE IF Len(s) >= 2 /\ s[2] \in {60, 61, 62} THEN 2 ELSE 1
(* criterion value: text (code points) or a number value *)
CritOf(c) ==
  IF c.t = "num" THEN [k |-> "eqnum", q |-> [n |-> c.n, d |-> c.d]]
  ELSE IF c.t # "txt" THEN [k |-> "none"]
  ELSE LET ol == OpLen(c.s)
           op == SubSeq(c.s, 1, ol)
           rest == SubSeq(c.s, ol + 1, Len(c.s))
       IN IF ol > 0
          THEN (IF ExpNumericText(rest).ok /\ op \in {<<60>>, <<62>>, <<61>>, <<60, 61>>, <<62, 61>>, <<60, 62>>}
                THEN [k |-> "cmp", op |-> op, q |-> ExpNumericText(rest).q] ELSE [k |-> "none"])
          ELSE IF rest = <<>> THEN [k |-> "none"]
          ELSE IF \E i \in 1..Len(rest) : rest[i] \in {42, 63} THEN
               (IF \E i \in 1..Len(rest) : rest[i] \in {91, 93} THEN [k |-> "none"] ELSE [k |-> "wild", p |-> rest])
          ELSE IF NumericText(rest).ok THEN [k |-> "eqnum", q |-> NumericText(rest).q]
          ELSE [k |-> "eqtxt", s |-> rest]

(* does a criteria cell satisfy a criterion?  [def, ok] - def: the pairing is within the statement *)
CritMatch(cr, cell) ==
  CASE cr.k = "cmp" -> IF cell.t # "num" THEN [def |-> FALSE, ok |-> FALSE]
                       ELSE LET x == [n |-> cell.n, d |-> cell.d] IN
                            [def |-> TRUE, ok |-> CASE cr.op = <<60>> -> QLt(x, cr.q) [] cr.op = <<62>> -> QLt(cr.q, x)
                                                     [] cr.op = <<61>> -> QEq(x, cr.q) [] cr.op = <<60, 61>> -> QLe(x, cr.q)
                                                     [] cr.op = <<62, 61>> -> QLe(cr.q, x) [] cr.op = <<60, 62>> -> ~QEq(x, cr.q)]
    [] cr.k = "eqnum" -> IF cell.t # "num" THEN [def |-> FALSE, ok |-> FALSE]
                         ELSE [def |-> TRUE, ok |-> QEq([n |-> cell.n, d |-> cell.d], cr.q)]
    [] cr.k = "wild" -> IF cell.t # "txt" THEN [def |-> FALSE, ok |-> FALSE] ELSE [def |-> TRUE, ok |-> WildM(cr.p, cell.s)]
    [] cr.k = "eqtxt" -> IF cell.t # "txt" THEN [def |-> FALSE, ok |-> FALSE] ELSE [def |-> TRUE, ok |-> cell.s = cr.s]
    [] OTHER -> [def |-> FALSE, ok |-> FALSE]
=============================================================================
