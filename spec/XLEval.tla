------------------------------- MODULE XLEval -------------------------------
(***************************************************************************)
(* Layer 3: evaluation of formula trees.  Big-step, post-order, left to    *)
(* right - the order in which hotxlfp's grammar actions run - producing    *)
(* the expectation for the formula's value, the sequence of public events  *)
(* (callCellValue, callRangeValue, callVariable, callFunction) and an      *)
(* abort code when the whole formula is given up (error literal, unknown   *)
(* name, raising host callback).                                           *)
(*                                                                         *)
(* Tree nodes (records, field k):                                          *)
(*   "num"   s: lexeme code points        "str"  s: content code points    *)
(*   "var"   name: STRING                 "cell" s: written label          *)
(*   "range" a, b: written labels         "errlit" c: code                 *)
(*   "neg" e    "paren" e    "bin" op, l, r                                *)
(*   "call"  f: STRING, args: Seq(node)   "arr"  items: Seq(node)          *)
(*   "omit"  an empty argument slot                                        *)
(* Environment env:                                                        *)
(*   vars     record name -> value          registered variables           *)
(*   funcs    record NAME -> [mode, v, i]   registered custom functions:   *)
(*            mode "const" returns v, "arg" returns its i-th argument,     *)
(*            "raise" raises the error v, "exc" raises a host exception    *)
(*   cellsets, rangesets  Seq([key, vals])  what listeners hand to the     *)
(*            setter of that reference, in order (key: normalised label)   *)
(*   varsets, fnsets      Seq([name, vals]) same for variables/functions   *)
(***************************************************************************)
EXTENDS XLOps, XLCell, XLFuncs

CONSTANT Builtins        \* documented function names (SUPPORTED_FORMULAS.md)

(***************************************************************************)
(* literals (C05)                                                          *)
(***************************************************************************)
RECURSIVE IPow(_, _)
IPow(b, e) == IF e = 0 THEN 1 ELSE b * IPow(b, e - 1)

IndexOf(s, c) == IF \E i \in 1..Len(s) : s[i] = c
                 THEN CHOOSE i \in 1..Len(s) : s[i] = c /\ \A j \in 1..(i - 1) : s[j] # c
                 ELSE 0

(* digits | digits.digits | .digits | digits% | digits^digits              *)
LitValue(s) ==
  LET dot == IndexOf(s, 46)
      pct == IndexOf(s, 37)
      car == IndexOf(s, 94)
  IN IF dot > 0
     THEN LET ip == SubSeq(s, 1, dot - 1)
              fp == SubSeq(s, dot + 1, Len(s))
          IN IF AllDigits(fp) /\ (ip = <<>> \/ AllDigits(ip)) /\ Len(ip) + Len(fp) <= 9 /\ Len(fp) <= 6   \* (recorded floats snap onto denominators <= 10^6)
             THEN Num(DigitsVal(ip \o fp), Pow10(Len(fp))) ELSE Unspec
     ELSE IF pct > 0
     THEN LET ip == SubSeq(s, 1, pct - 1)
          IN IF pct = Len(s) /\ AllDigits(ip) /\ Len(ip) <= 9 THEN Num(DigitsVal(ip), 100) ELSE Unspec
     ELSE IF car > 0
     THEN LET b == SubSeq(s, 1, car - 1)
              e == SubSeq(s, car + 1, Len(s))
          IN IF AllDigits(b) /\ AllDigits(e) /\ Len(b) <= 2 /\ Len(e) <= 1
                /\ (DigitsVal(b) <= 9 \/ DigitsVal(e) <= 4)
             THEN IntV(IPow(DigitsVal(b), DigitsVal(e))) ELSE Unspec
     ELSE IF AllDigits(s) /\ Len(s) <= 9 THEN IntV(DigitsVal(s)) ELSE Unspec

(***************************************************************************)
(* results of evaluating a node                                            *)
(***************************************************************************)
(* may: some operation on the way had an unspecified outcome - the real     *)
(* evaluation may have given up there (a host exception ends the formula   *)
(* with an error), so later events need not occur                          *)
(* fl: the number was produced by binary floating-point arithmetic that need *)
(* not be exact (a division, decimal fractions): its text under & is then     *)
(* not fixed ("14" or "13.999999999999998")                                   *)
RM(e, ev, may) == [ab |-> "", e |-> e, ev |-> ev, may |-> may \/ e.k = "any", fl |-> FALSE]
RF(r, fl) == [r EXCEPT !.fl = fl]
R(e, ev) == RM(e, ev, FALSE)
AbM(c, ev, may) == [ab |-> c, e |-> EAny, ev |-> ev, may |-> may, fl |-> FALSE]
Ab(c, ev) == AbM(c, ev, FALSE)
Det(e) == e.k = "val"
RECURSIVE ValOf(_)
ValOf(e) == IF e.k = "val" THEN e.v
            ELSE IF e.k = "errs" /\ Cardinality(e.cs) = 1 THEN Err(CHOOSE c \in e.cs : TRUE)     \* exactly one possible error: that error value
            ELSE IF e.k = "arr"
                 THEN LET vs == [i \in 1..Len(e.a) |-> ValOf(e.a[i])]
                      IN IF \E i \in 1..Len(vs) : IsUnspec(vs[i]) /\ e.a[i].k # "val" /\ e.a[i].k # "arr"
                         THEN Unspec ELSE Arr(vs)
            ELSE Unspec
OfVal(v) == IF IsUnspec(v) THEN EAny ELSE EVal(v)

RECURSIVE HasUnspec(_)
HasUnspec(v) == IF IsArr(v) THEN \E i \in 1..Len(v.a) : HasUnspec(v.a[i]) ELSE IsUnspec(v)

BinExpect(op, le, re) ==
  LET a == ValOf(le)
      b == ValOf(re)
  IN IF IsUnspec(a) THEN EAny                       \* the left operand might be an error
     ELSE IF IsErr(a) THEN EVal(a)
     ELSE IF HasUnspec(a) \/ HasUnspec(b) THEN (IF IsErr(b) THEN EVal(b) ELSE EAny)
     ELSE IF op \in CmpOps THEN CmpExpect(op, a, b)
     ELSE IF op = "&" THEN ConcatExpect(a, b)
     ELSE ArithExpect(op, a, b)

(* what listeners handed to the setter: the last value other than blank    *)
RECURSIVE LastNonBlank(_, _)
LastNonBlank(vals, dflt) == IF vals = <<>> THEN dflt
                            ELSE IF ~IsBlank(vals[Len(vals)]) THEN vals[Len(vals)]
                            ELSE LastNonBlank(SubSeq(vals, 1, Len(vals) - 1), dflt)

RECURSIVE SetVals(_, _)
SetVals(sets, key) == IF sets = <<>> THEN <<>>
                      ELSE (IF Head(sets).key = key THEN Head(sets).vals ELSE <<>>)
                              \o SetVals(Tail(sets), key)

(***************************************************************************)
(* reference events (C10)                                                  *)
(***************************************************************************)
CellPart(s) == LET p == Shape(s) IN
  [label |-> UpperS(s), row |-> RowIndex(p.digits), col |-> ColIndex(p.letters),
   rabs |-> p.rabs, cabs |-> p.cabs]
PlainKey(s) == LET p == Shape(s) IN UpperS(p.letters) \o p.digits

CellEvent(s) == [k |-> "cell", c |-> CellPart(s)]

(* corners normalised by index; each corner keeps the $ marker of the      *)
(* row/column part it took over and its label is recomposed from them      *)
RangeEvent(a, b) ==
  LET pa == Shape(a)
      pb == Shape(b)
      rowA == RowIndex(pa.digits) <= RowIndex(pb.digits)     \* top row comes from a
      colA == ColIndex(pa.letters) <= ColIndex(pb.letters)   \* left column comes from a
      top == [digits |-> IF rowA THEN pa.digits ELSE pb.digits, rabs |-> IF rowA THEN pa.rabs ELSE pb.rabs,
              letters |-> IF colA THEN pa.letters ELSE pb.letters, cabs |-> IF colA THEN pa.cabs ELSE pb.cabs]
      bot == [digits |-> IF rowA THEN pb.digits ELSE pa.digits, rabs |-> IF rowA THEN pb.rabs ELSE pa.rabs,
              letters |-> IF colA THEN pb.letters ELSE pa.letters, cabs |-> IF colA THEN pb.cabs ELSE pa.cabs]
      mk(p) == [label |-> Recompose(p), row |-> RowIndex(p.digits), col |-> ColIndex(p.letters),
                rabs |-> p.rabs, cabs |-> p.cabs]
  IN [k |-> "range", s |-> mk(top), e |-> mk(bot)]
RangeKey(a, b) == LET r == RangeEvent(a, b) IN
  UpperS(Shape(r.s.label).letters) \o Shape(r.s.label).digits \o <<58>>
     \o UpperS(Shape(r.e.label).letters) \o Shape(r.e.label).digits

(***************************************************************************)
(* the evaluator                                                           *)
(***************************************************************************)
(* listeners that raise a host exception: env.raises, a sequence of strings  *)
(* "var:<name>", "fn:<NAME>", "cell:*", "range:*" (optional field)          *)
RaisesAt(env, tag) == IF "raises" \in DOMAIN env THEN \E i \in 1..Len(env.raises) : env.raises[i] = tag ELSE FALSE

RECURSIVE Ev(_, _), EvSeq(_, _)

(* evaluates a sequence of nodes left to right; stops at the first abort   *)
EvSeq(ns, env) ==
  IF ns = <<>> THEN [ab |-> "", es |-> <<>>, ev |-> <<>>, may |-> FALSE, fl |-> FALSE]
  ELSE LET h == Ev(Head(ns), env) IN
       IF h.ab # "" THEN [ab |-> h.ab, es |-> <<>>, ev |-> h.ev, may |-> h.may, fl |-> FALSE]
       ELSE LET t == EvSeq(Tail(ns), env) IN
            [ab |-> t.ab, es |-> <<h.e>> \o t.es, ev |-> h.ev \o t.ev, may |-> h.may \/ t.may, fl |-> h.fl \/ t.fl]

CallExpect(f, es, env) ==
  LET args == [i \in 1..Len(es) |-> ValOf(es[i])]
      fnEv == [k |-> "fn", name |-> f, args |-> args]
      over(dflt) == LET sv == LastNonBlank(SetVals(env.fnsets, f), Blank)
                    IN IF IsBlank(sv) THEN dflt ELSE OfVal(sv)
  IN IF RaisesAt(env, "fn:" \o f) /\ (f \in DOMAIN env.funcs \/ f \in Builtins)
     THEN AbM("#ERROR!", <<fnEv>>, TRUE)
     ELSE IF f \in DOMAIN env.funcs
     THEN LET c == env.funcs[f] IN
          CASE c.mode = "const" -> R(over(OfVal(c.v)), <<fnEv>>)
            [] c.mode = "arg" -> R(over(IF c.i <= Len(es) THEN es[c.i] ELSE EAny), <<fnEv>>)
            [] c.mode = "raise" -> R(over(OfVal(c.v)), <<fnEv>>)   \* a raised error value is the call's value (C08)
            [] c.mode = "exc" -> AbM("#ERROR!", <<[k |-> "xcall", name |-> f, args |-> args]>>, TRUE)
                 \* the function is called and raises a host exception: no callFunction event, and
                 \* the outcome is left open (C01 only asks for a well-formed record)
     ELSE IF f \in Builtins THEN R(over(BuiltinExpect(f, args)), <<fnEv>>)
     ELSE Ab("#NAME?", <<>>)

Ev(n, env) ==
  CASE n.k = "num" -> RF(R(OfVal(LitValue(n.s)), <<>>), LET v == LitValue(n.s) IN IF v.t = "num" THEN v.d # 1 ELSE FALSE)
    [] n.k = "str" -> R(EVal(Txt(n.s)), <<>>)
    [] n.k = "errlit" -> Ab(n.c, <<>>)
    [] n.k = "omit" -> R(EVal(Blank), <<>>)
    [] n.k = "paren" -> Ev(n.e, env)
    [] n.k = "neg" -> LET r == Ev(n.e, env) IN
                      IF r.ab # "" THEN r ELSE RF(RM(NegExpect(ValOf(r.e)), r.ev, r.may), r.fl)
    [] n.k = "bin" -> LET l == Ev(n.l, env) IN
                      IF l.ab # "" THEN l
                      ELSE LET r == Ev(n.r, env) IN
                           IF r.ab # "" THEN AbM(r.ab, l.ev \o r.ev, l.may \/ r.may)
                           ELSE IF n.op = "&" /\ ((l.fl /\ ValOf(l.e).t = "num") \/ (r.fl /\ ValOf(r.e).t = "num"))
                                THEN RM(EAny, l.ev \o r.ev, l.may \/ r.may)
                           ELSE RF(RM(BinExpect(n.op, l.e, r.e), l.ev \o r.ev, l.may \/ r.may),
                                   n.op \in {"+", "-", "*", "/"} /\ (l.fl \/ r.fl \/ n.op = "/"))
    [] n.k = "var" ->
         LET sv == LastNonBlank(SetVals(env.varsets, n.name), Blank)
             ev == <<[k |-> "var", name |-> n.name]>>
         IN IF RaisesAt(env, "var:" \o n.name) THEN AbM("#ERROR!", ev, TRUE)
            ELSE IF ~IsBlank(sv) THEN R(OfVal(sv), ev)
            ELSE IF n.name \in DOMAIN env.vars THEN R(OfVal(env.vars[n.name]), ev)
            ELSE IF n.name = "TRUE" THEN R(EVal(Bool(TRUE)), ev)       \* predefined on every parser (C09)
            ELSE IF n.name = "FALSE" THEN R(EVal(Bool(FALSE)), ev)
            ELSE IF n.name = "NULL" THEN R(EVal(Blank), ev)
            ELSE Ab("#NAME?", ev)
    [] n.k = "cell" ->
         IF RaisesAt(env, "cell:*") THEN AbM("#ERROR!", <<CellEvent(n.s)>>, TRUE) ELSE
         R(OfVal(LastNonBlank(SetVals(env.cellsets, PlainKey(n.s)), Blank)), <<CellEvent(n.s)>>)
    [] n.k = "range" ->
         IF RaisesAt(env, "range:*") THEN AbM("#ERROR!", <<RangeEvent(n.a, n.b)>>, TRUE) ELSE
         R(OfVal(LastNonBlank(SetVals(env.rangesets, RangeKey(n.a, n.b)), Blank)), <<RangeEvent(n.a, n.b)>>)
    [] n.k = "arr" -> LET r == EvSeq(n.items, env) IN
                      IF r.ab # "" THEN AbM(r.ab, r.ev, r.may)
                      ELSE RM([k |-> "arr", a |-> r.es], r.ev, r.may)
    [] n.k = "call" -> LET r == EvSeq(n.args, env) IN
                       IF r.ab # "" THEN AbM(r.ab, r.ev, r.may)
                       ELSE LET c == CallExpect(n.f, r.es, env) IN
                            [ab |-> c.ab, e |-> c.e, ev |-> r.ev \o c.ev, may |-> r.may \/ c.may, fl |-> r.fl]

(* public events (what listeners see) and custom-function invocations of an *)
(* expected event sequence ("xcall" = invoked, raised, no event)             *)
Pub(ev) == SelectSeq(ev, LAMBDA x : x.k # "xcall")
CustomCalls(ev, env) == SelectSeq(ev, LAMBDA x : x.k \in {"fn", "xcall"} /\ x.name \in DOMAIN env.funcs)

(* the outcome of Parser.parse for a tree: expectation for the top value   *)
TopExpect(n, env) == LET r == Ev(n, env) IN
                     IF r.may THEN EAny
                     ELSE IF r.ab # "" THEN EVal(Err(r.ab)) ELSE r.e
=============================================================================
