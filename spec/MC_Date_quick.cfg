SPECIFICATION Spec
CONSTANTS
  Lo = 2
  Hi = 150000
INVARIANT RoundTrip
INVARIANT Valid
INVARIANT Successor
INVARIANT Weekdays
INVARIANT EDateLaws
INVARIANT DifLaws
CHECK_DEADLOCK FALSE
