SPECIFICATION Spec
CONSTANTS
  MaxLen = 3
INVARIANT PredLaws
INVARIANT JunctionLaws
INVARIANT IfLaws
INVARIANT Determined
INVARIANT ExportInv
CHECK_DEADLOCK FALSE
