SPECIFICATION Spec
CONSTANTS
  NMax = 40000
INVARIANT RoundingSatisfiable
INVARIANT AdjacentSatisfiable
INVARIANT ModLaw
INVARIANT RadixLaw
INVARIANT RomanLaw
INVARIANT FactLaw
INVARIANT BigNatLaw
CHECK_DEADLOCK FALSE
