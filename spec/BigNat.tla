------------------------------- MODULE BigNat -------------------------------
(***************************************************************************)
(* Natural numbers beyond TLC's 32-bit integers: little-endian sequences   *)
(* of base-10^4 limbs (products of a limb and a small factor stay far      *)
(* below 2^31).  Only what C17 needs: multiply/add a small number,         *)
(* subtract, compare, convert to and from decimal digit strings, evaluate  *)
(* a digit string in a radix.                                              *)
(***************************************************************************)
EXTENDS Integers, Sequences

Base == 10000

RECURSIVE BNorm(_)
BNorm(a) == IF a # <<>> /\ a[Len(a)] = 0 THEN BNorm(SubSeq(a, 1, Len(a) - 1)) ELSE a   \* <<>> is zero

RECURSIVE BMulAdd(_, _, _)
(* a * k + c   for 0 <= k < 2*10^5, 0 <= c < 2*10^9 / ... (small) *)
BMulAdd(a, k, c) ==
  IF a = <<>> THEN (IF c = 0 THEN <<>> ELSE <<c % Base>> \o BMulAdd(<<>>, 0, c \div Base))
  ELSE LET t == a[1] * k + c IN <<t % Base>> \o BMulAdd(Tail(a), k, t \div Base)

BOfNat(n) == BMulAdd(<<>>, 0, n)            \* n a TLC natural

RECURSIVE BSubB(_, _, _)
(* a - b - borrow, for a >= b *)
BSubB(a, b, br) ==
  IF a = <<>> THEN <<>>
  ELSE LET y == IF b = <<>> THEN 0 ELSE b[1]
           t == a[1] - y - br
       IN IF t < 0 THEN <<t + Base>> \o BSubB(Tail(a), IF b = <<>> THEN <<>> ELSE Tail(b), 1)
          ELSE <<t>> \o BSubB(Tail(a), IF b = <<>> THEN <<>> ELSE Tail(b), 0)
BSub(a, b) == BNorm(BSubB(a, b, 0))

RECURSIVE BAddC(_, _, _)
(* a + b + carry *)
BAddC(a, b, c) ==
  IF a = <<>> /\ b = <<>> THEN (IF c = 0 THEN <<>> ELSE <<c>>)
  ELSE LET x == IF a = <<>> THEN 0 ELSE a[1]
           y == IF b = <<>> THEN 0 ELSE b[1]
           t == x + y + c
       IN <<t % Base>> \o BAddC(IF a = <<>> THEN <<>> ELSE Tail(a), IF b = <<>> THEN <<>> ELSE Tail(b), t \div Base)
BAdd(a, b) == BNorm(BAddC(a, b, 0))

RECURSIVE BLtRev(_, _)
BLtRev(a, b) ==       \* same length, compare from the most significant limb
  IF a = <<>> THEN FALSE
  ELSE IF a[Len(a)] # b[Len(b)] THEN a[Len(a)] < b[Len(b)]
  ELSE BLtRev(SubSeq(a, 1, Len(a) - 1), SubSeq(b, 1, Len(b) - 1))
BLt(a, b) == Len(a) < Len(b) \/ (Len(a) = Len(b) /\ BLtRev(a, b))      \* normalised operands
BLe(a, b) == a = b \/ BLt(a, b)

(* decimal digit string (code points, most significant first) -> BigNat *)
RECURSIVE BOfDigitsAcc(_, _)
BOfDigitsAcc(ds, acc) == IF ds = <<>> THEN acc ELSE BOfDigitsAcc(Tail(ds), BMulAdd(acc, 10, ds[1] - 48))
BOfDigits(ds) == BNorm(BOfDigitsAcc(ds, <<>>))

(* value of a digit string in radix r (2..36): digits 0-9, A-Z / a-z *)
DigitVal(c) == IF c >= 48 /\ c <= 57 THEN c - 48
               ELSE IF c >= 65 /\ c <= 90 THEN c - 55
               ELSE IF c >= 97 /\ c <= 122 THEN c - 87 ELSE 99
RECURSIVE BOfRadixAcc(_, _, _)
BOfRadixAcc(ds, r, acc) == IF ds = <<>> THEN acc ELSE BOfRadixAcc(Tail(ds), r, BMulAdd(acc, r, DigitVal(ds[1])))
BOfRadix(ds, r) == BNorm(BOfRadixAcc(ds, r, <<>>))
ValidDigits(ds, r) == ds # <<>> /\ \A i \in 1..Len(ds) : DigitVal(ds[i]) < r

Two39 == BOfDigits(<<53, 52, 57, 55, 53, 53, 56, 49, 51, 56, 56, 56>>)              \* 549755813888
Two40 == BOfDigits(<<49, 48, 57, 57, 53, 49, 49, 54, 50, 55, 55, 55, 54>>)          \* 1099511627776

RECURSIVE BFact(_)
BFact(n) == IF n <= 1 THEN <<1>> ELSE BMulAdd(BFact(n - 1), n, 0)
RECURSIVE BFact2(_)
BFact2(n) == IF n <= 1 THEN <<1>> ELSE BMulAdd(BFact2(n - 2), n, 0)
=============================================================================
