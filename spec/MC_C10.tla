------------------------------- MODULE MC_C10 -------------------------------
(* C10 on the specification: reference events of XLEval.  Cases (a formula   *)
(* tree over 1..3 references plus the setter values listeners hand back) are *)
(* enumerated, the laws below are checked on the expected event sequence and *)
(* every case is exported for replay on the real parser.                     *)
EXTENDS XLEval, Json, IOUtils, CSV

CONSTANT Full       \* TRUE: the big pools

Written(letters, cabs, digits, rabs) ==
  (IF cabs THEN <<36>> ELSE <<>>) \o letters \o (IF rabs THEN <<36>> ELSE <<>>) \o digits

ColPool == << <<97>>, <<66>>, <<65, 65>>, <<120, 70, 100>> >>          \* a B AA xFd
RowPool == << <<49>>, <<50>>, <<49, 48>>, <<49, 48, 52, 56, 53, 55, 54>> >>   \* 1 2 10 1048576

CellNode(ci, ca, ri, ra) == [k |-> "cell", s |-> Written(ColPool[ci], ca, RowPool[ri], ra)]

(* a rectangle given by two column parts and two row parts, written with    *)
(* corner order ord: 1 = c1r1:c2r2, 2 = c2r2:c1r1, 3 = c1r2:c2r1, 4 = c2r1:c1r2 *)
RangeNode(c1, a1, c2, a2, r1, b1, r2, b2, ord) ==
  LET p11 == Written(ColPool[c1], a1, RowPool[r1], b1)
      p22 == Written(ColPool[c2], a2, RowPool[r2], b2)
      p12 == Written(ColPool[c1], a1, RowPool[r2], b2)
      p21 == Written(ColPool[c2], a2, RowPool[r1], b1)
  IN CASE ord = 1 -> [k |-> "range", a |-> p11, b |-> p22]
       [] ord = 2 -> [k |-> "range", a |-> p22, b |-> p11]
       [] ord = 3 -> [k |-> "range", a |-> p12, b |-> p21]
       [] ord = 4 -> [k |-> "range", a |-> p21, b |-> p12]

VarNode(n) == [k |-> "var", name |-> n]

CellRefs == IF Full
            THEN {CellNode(ci, ca, ri, ra) : ci \in 1..4, ca \in BOOLEAN, ri \in 1..4, ra \in BOOLEAN}
            ELSE {CellNode(ci, ca, ri, ra) : ci \in 1..3, ca \in BOOLEAN, ri \in 1..2, ra \in BOOLEAN}
RangeRefs == IF Full
             THEN {RangeNode(c[1], a1, c[2], a2, r[1], b1, r[2], b2, ord) :
                     c \in {<<1, 2>>, <<2, 2>>, <<3, 1>>, <<4, 3>>}, a1 \in BOOLEAN, a2 \in BOOLEAN,
                     r \in {<<1, 2>>, <<2, 2>>, <<3, 1>>, <<4, 2>>}, b1 \in BOOLEAN, b2 \in BOOLEAN, ord \in 1..4}
             ELSE {RangeNode(c[1], a1, c[2], a2, r[1], b1, r[2], b2, ord) :
                     c \in {<<1, 2>>, <<2, 2>>}, a1 \in BOOLEAN, a2 \in {FALSE},
                     r \in {<<1, 2>>, <<3, 1>>}, b1 \in {FALSE}, b2 \in BOOLEAN, ord \in 1..4}
VarRefs == {VarNode("va"), VarNode("vb")}
Refs == CellRefs \cup RangeRefs \cup VarRefs

SmallRefs == {CellNode(1, FALSE, 1, FALSE), CellNode(2, TRUE, 2, FALSE), CellNode(1, FALSE, 1, TRUE),
              RangeNode(1, FALSE, 2, TRUE, 1, FALSE, 2, FALSE, 2), RangeNode(2, FALSE, 2, FALSE, 3, TRUE, 1, FALSE, 3),
              VarNode("va"), VarNode("vb")}

SetPool == << <<>>, <<Blank>>, <<IntV(0)>>, <<Bool(FALSE)>>, <<Txt(<<>>)>>, <<IntV(5)>>,
              <<IntV(5), Blank>>, <<Blank, IntV(0)>>, <<IntV(5), IntV(0)>>, <<Txt(<<>>), Bool(FALSE), Blank>> >>

Call(f, args) == [k |-> "call", f |-> f, args |-> args]
Bin(op, l, r) == [k |-> "bin", op |-> op, l |-> l, r |-> r]

Template(t, r) ==     \* r: sequence of reference nodes
  CASE t = 1 -> r[1]
    [] t = 2 -> Bin("+", r[1], r[2])
    [] t = 3 -> Bin("+", r[1], Bin("*", r[2], r[3]))
    [] t = 4 -> Bin("&", Call("REC", <<r[1], r[2]>>), r[3])
    [] t = 5 -> Call("SUM", <<r[1], Call("REC", <<r[2]>>), r[3]>>)
    [] t = 6 -> Bin("<", Bin("-", r[1], r[2]), [k |-> "neg", e |-> [k |-> "paren", e |-> r[3]]])
    [] t = 7 -> Call("REC", <<[k |-> "arr", items |-> <<r[1], r[2]>>], Call("REC", <<>>), r[3]>>)
Arity(t) == IF t = 1 THEN 1 ELSE IF t = 2 THEN 2 ELSE 3

KeyOf(n) == IF n.k = "cell" THEN PlainKey(n.s) ELSE IF n.k = "range" THEN RangeKey(n.a, n.b) ELSE <<>>

EnvFor(refs, si) ==
  LET n == refs[1]
      vals == SetPool[si]
  IN [vars |-> [va |-> IntV(3), vb |-> Txt(<<113, 113>>)],
      funcs |-> [REC |-> [mode |-> "const", v |-> IntV(7), i |-> 0]],
      cellsets |-> IF n.k = "cell" THEN <<[key |-> KeyOf(n), vals |-> vals]>> ELSE <<>>,
      rangesets |-> IF n.k = "range" THEN <<[key |-> KeyOf(n), vals |-> vals]>> ELSE <<>>,
      varsets |-> IF n.k = "var" THEN <<[key |-> n.name, vals |-> vals]>> ELSE <<>>,
      fnsets |-> IF si % 3 = 0 THEN <<[key |-> "REC", vals |-> vals]>> ELSE <<>>]

VARIABLES t, refs, si
vars == <<t, refs, si>>
Init == t \in 1..7 /\ refs = <<>> /\ si = 0
Next == \/ /\ Len(refs) < Arity(t) /\ si = 0
           /\ refs' \in {Append(refs, r) : r \in (IF t = 1 THEN Refs ELSE SmallRefs)}
           /\ UNCHANGED <<t, si>>
        \/ /\ Len(refs) = Arity(t) /\ si = 0
           /\ si' \in 1..Len(SetPool)
           /\ UNCHANGED <<t, refs>>
Spec == Init /\ [][Next]_vars

Complete == si # 0
Tree == Template(t, refs)
Env == EnvFor(refs, si)
Res == Ev(Tree, Env)

RECURSIVE CountRefs(_)
CountRefs(n) ==
  CASE n.k \in {"cell", "range", "var"} -> 1
    [] n.k = "bin" -> CountRefs(n.l) + CountRefs(n.r)
    [] n.k \in {"neg", "paren"} -> CountRefs(n.e)
    [] n.k = "call" -> 1 + SeqSum([j \in 1..Len(n.args) |-> CountRefs(n.args[j])])
    [] n.k = "arr" -> SeqSum([j \in 1..Len(n.items) |-> CountRefs(n.items[j])])
    [] OTHER -> 0

CornerOK(c) == LET p == Shape(c.label) IN
  /\ IsLabel(c.label) /\ UpperS(c.label) = c.label
  /\ RowIndex(p.digits) = c.row /\ ColIndex(p.letters) = c.col
  /\ p.rabs = c.rabs /\ p.cabs = c.cabs

OneEventPerReference == Complete => (Res.ab = "" /\ Len(Res.ev) = CountRefs(Tree))
EventsWellFormed == Complete =>
  \A j \in 1..Len(Res.ev) :
     LET e == Res.ev[j] IN
       /\ e.k = "cell" => CornerOK(e.c)
       /\ e.k = "range" => CornerOK(e.s) /\ CornerOK(e.e) /\ e.s.row <= e.e.row /\ e.s.col <= e.e.col
(* the four ways of writing the corners of one rectangle give one event    *)
CornerOrderIrrelevant ==
  \A c \in {<<1, 2>>, <<3, 1>>}, r \in {<<1, 2>>, <<3, 1>>}, a1 \in BOOLEAN, b2 \in BOOLEAN :
     \A o1 \in 1..4, o2 \in 1..4 :
        LET n1 == RangeNode(c[1], a1, c[2], FALSE, r[1], FALSE, r[2], b2, o1)
            n2 == RangeNode(c[1], a1, c[2], FALSE, r[1], FALSE, r[2], b2, o2)
        IN RangeEvent(n1.a, n1.b) = RangeEvent(n2.a, n2.b)
(* single reference: the formula's value is the last non-blank setter value *)
SetterRule == (Complete /\ t = 1 /\ refs[1].k # "var") =>
  LET vals == SetPool[si] IN
    Res.e = EVal(IF \E j \in 1..Len(vals) : ~IsBlank(vals[j])
                 THEN vals[CHOOSE j \in 1..Len(vals) : ~IsBlank(vals[j]) /\ \A m \in (j + 1)..Len(vals) : IsBlank(vals[m])]
                 ELSE Blank)

ExportInv == Complete => CSVWrite("%1$s", <<ToJson([ast |-> Tree, env |-> Env])>>, IOEnv.CASE_FILE)
=============================================================================
