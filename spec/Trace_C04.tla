------------------------------ MODULE Trace_C04 ------------------------------
(* C04: for each tree the three renderings were evaluated by the real parser;  *)
(* every outcome must match the exact value XLEval gives the tree, and the     *)
(* three outcomes must be identical even where that value is unspecified.      *)
(* Observation: [id, ast, env, outs |-> <<out_min, out_full, out_red>>]        *)
EXTENDS TraceKit, XLEval
CONSTANT OpenDevs

Failing(o) ==
  LET e == TopExpect(o.ast, o.env) IN
  (IF ~OutcomeMatchesX(e, o.outs[1]) THEN <<"min_value">> ELSE <<>>)
  \o (IF ~OutcomeMatchesX(e, o.outs[2]) THEN <<"full_value">> ELSE <<>>)
  \o (IF ~OutcomeMatchesX(e, o.outs[3]) THEN <<"redundant_value">> ELSE <<>>)
  \o (IF \E a, b \in 1..3 : o.outs[a].res # o.outs[b].res \/ o.outs[a].err # o.outs[b].err
      THEN <<"renderings_differ">> ELSE <<>>)

Verdict(o) == LET f == Failing(o) IN IF f = <<>> THEN <<"ok">> ELSE <<"bad">> \o f
Inv == PrintT(<<"V", O.id>> \o Verdict(O))
=============================================================================
