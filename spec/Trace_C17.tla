------------------------------ MODULE Trace_C17 ------------------------------
(* C17: recorded results of the rounding / integer / radix functions, judged    *)
(* against the relations of XLMath and BigNat arithmetic.  Kinds:               *)
(*  "round" in [f, x, d]     ROUND / ROUNDUP / ROUNDDOWN                        *)
(*  "adj"   in [f, x, s]     CEILING / FLOOR                                    *)
(*  "int"   in [f, x]        INT / EVEN / ODD / SIGN                            *)
(*  "qm"    in [n, d]        out [QUOTIENT, MOD]                                *)
(*  "fact"  in [n]           out [FACT, FACTDOUBLE] as decimal digit strings    *)
(*  "hex"   in [neg, ds]     out [DEC2HEX text, HEX2DEC of it]                  *)
(*  "base"  in [ds, r]       out [BASE text, DECIMAL of it]                     *)
(*  "roman" in [n, form]     out [ROMAN text, ARABIC of it]                     *)
(*  "cplx"  in [a, b]        out [IMREAL, IMAGINARY of COMPLEX(a, b)]           *)
(* values: XLValue encoding; big integers [t |-> "dec", neg, ds]                *)
EXTENDS TraceKit, XLMath
CONSTANT OpenDevs

Cl(name, ok) == IF ok THEN <<>> ELSE <<name>>
Small(q) == AbsI(q.n) <= 40000 /\ q.d <= 40000
NumV(v) == v.t = "num"
ErrV(v) == v.t = "err"
QV(v) == [n |-> v.n, d |-> v.d]
IsNI(v, k) == v.t = "num" /\ v.d = 1 /\ v.n = k
(* a recorded integer of any size as a BigNat magnitude and sign *)
IsInt(v) == (v.t = "num" /\ v.d = 1) \/ v.t = "dec"
Mag(v) == IF v.t = "num" THEN BOfNat(AbsI(v.n)) ELSE BOfDigits(v.ds)
Neg(v) == IF v.t = "num" THEN v.n < 0 ELSE v.neg /\ BOfDigits(v.ds) # <<>>

RoundClauses(o) ==
  LET x == QV(o.in.x)
      d == o.in.d
      r == o.out
  IN IF ~RoundSafe(x, d)
     THEN (IF d = 0 /\ BigUnitSafe(x)          \* large numbers rounded to whole numbers
           THEN IF ~NumV(r) \/ ~WholeNear(x, QV(r)) THEN <<"not_the_adjacent_whole_number">>
                ELSE CASE o.in.f = "ROUND" -> Cl("ROUND", SameSignOrZero(QV(r), x) /\ Near0(x, QV(r)))
                       [] o.in.f = "ROUNDUP" -> Cl("ROUNDUP", SameSignOrZero(QV(r), x) /\ UpAbs0(x, QV(r)))
                       [] o.in.f = "ROUNDDOWN" -> Cl("ROUNDDOWN", SameSignOrZero(QV(r), x) /\ DownAbs0(x, QV(r)))
           ELSE <<>>)
     ELSE IF ~NumV(r) \/ ~ResSafe(QV(r)) THEN <<"not_a_number">>
     ELSE CASE o.in.f = "ROUND" -> Cl("ROUND", RoundRel(x, d, QV(r)))
            [] o.in.f = "ROUNDUP" -> Cl("ROUNDUP", RoundUpRel(x, d, QV(r)))
            [] o.in.f = "ROUNDDOWN" -> Cl("ROUNDDOWN", RoundDownRel(x, d, QV(r)))

AdjClauses(o) ==
  LET x == QV(o.in.x)
      s == QV(o.in.s)
      r == o.out
  IN IF s.n = 1 /\ s.d = 1 /\ ~Small(x) /\ BigUnitSafe(x)
     THEN (IF ~NumV(r) \/ ~WholeNear(x, QV(r)) THEN <<"not_the_adjacent_whole_number">>
           ELSE IF o.in.f = "CEILING" THEN Cl("CEILING", Ceil0(x, QV(r))) ELSE Cl("FLOOR", Floor0(x, QV(r))))
     ELSE IF s.n = 0 \/ ~Small(x) \/ ~Small(s) THEN <<>>
     ELSE IF o.in.f = "CEILING"
     THEN IF s.n > 0 THEN Cl("CEILING", NumV(r) /\ ResSafe(QV(r)) /\ AdjacentRel(x, s, QV(r), "up"))
          ELSE IF x.n <= 0 THEN Cl("CEILING_negative", NumV(r) /\ ResSafe(QV(r)) /\ AdjacentRel(x, s, QV(r), "down"))
          ELSE <<>>
     ELSE IF s.n > 0 THEN Cl("FLOOR", NumV(r) /\ ResSafe(QV(r)) /\ AdjacentRel(x, s, QV(r), "down"))
          ELSE IF x.n < 0 THEN Cl("FLOOR_negative", NumV(r) /\ ResSafe(QV(r)) /\ AdjacentRel(x, s, QV(r), "up"))
          ELSE IF x.n = 0 THEN Cl("FLOOR_zero", IsNI(r, 0) \/ ErrV(r))
          ELSE Cl("FLOOR_positive_number_negative_significance", ErrV(r))

IntClauses(o) ==
  LET x == QV(o.in.x)
      r == o.out
  IN IF ~Small(x)
     THEN (IF o.in.f = "INT" /\ BigUnitSafe(x)
           THEN Cl("INT", NumV(r) /\ WholeNear(x, QV(r)) /\ Floor0(x, QV(r))) ELSE <<>>)
     ELSE CASE o.in.f = "INT" -> Cl("INT", IsNI(r, QFloor(x)))
            [] o.in.f = "EVEN" -> Cl("EVEN", NumV(r) /\ ResSafe(QV(r)) /\ ParityRel(x, QV(r), 0))
            [] o.in.f = "ODD" -> Cl("ODD", NumV(r) /\ ResSafe(QV(r)) /\ ParityRel(x, QV(r), 1))
            [] o.in.f = "SIGN" -> Cl("SIGN", IsNI(r, SgnI(x.n)))

QmClauses(o) ==
  LET n == QV(o.in.n)
      d == QV(o.in.d)
      r == o.out.a
  IN IF d.n = 1 /\ d.d = 1 /\ ~Small(n) /\ BigUnitSafe(n)
     THEN Cl("QUOTIENT", NumV(r[1]) /\ WholeNear(n, QV(r[1])) /\ SameSignOrZero(QV(r[1]), n) /\ DownAbs0(n, QV(r[1])))
     ELSE IF ~Small(n) \/ ~Small(d) THEN <<>>
     ELSE IF d.n = 0 THEN Cl("zero_divisor_must_be_an_error", ErrV(r[1]) /\ ErrV(r[2]))
     ELSE Cl("QUOTIENT", IsNI(r[1], TruncQuot(n, d)))
          \* the statement's own words: number = divisor * integer + MOD, with the divisor's sign
          \o Cl("MOD", NumV(r[2]) /\ Small(QV(r[2])) /\ QDiv(QSub(n, QV(r[2])), d).d = 1
                        /\ (r[2].n = 0 \/ SgnI(r[2].n) = SgnI(d.n)) /\ QLe(QAbs(QV(r[2])), QAbs(d)))
                 \* (<= : a remainder one binary ulp below the divisor is recorded as the divisor itself)

FactClauses(o) ==
  LET n == o.in.n
      r == o.out.a
  IN IF n < 0 THEN Cl("negative_factorial_must_be_an_error", ErrV(r[1]) /\ ErrV(r[2]))
     ELSE Cl("FACT", IsInt(r[1]) /\ ~Neg(r[1]) /\ Mag(r[1]) = BFact(n))
          \o Cl("FACTDOUBLE", IsInt(r[2]) /\ ~Neg(r[2]) /\ Mag(r[2]) = BFact2(n))

(* n as sign + decimal digits; in range iff -2^39 <= n < 2^39 *)
HexClauses(o) ==
  LET m == BOfDigits(o.in.ds)
      neg == o.in.neg /\ m # <<>>
      inrange == IF neg THEN BLe(m, Two39) ELSE BLt(m, Two39)
      h == o.out.a[1]
      b == o.out.a[2]
  IN IF ~inrange THEN Cl("outside_40_bits_must_be_an_error", ErrV(h))
     ELSE Cl("DEC2HEX", h.t = "txt" /\ ValidDigits(h.s, 16) /\ Len(h.s) <= 10
                        /\ BOfRadix(h.s, 16) = (IF neg THEN BSub(Two40, m) ELSE m))
          \o Cl("HEX2DEC_inverts_DEC2HEX", IsInt(b) /\ Mag(b) = m /\ Neg(b) = neg)

BaseClauses(o) ==
  LET m == BOfDigits(o.in.ds)
      r == o.in.r
      t == o.out.a[1]
      b == o.out.a[2]
  IN IF r < 2 \/ r > 36 \/ o.in.neg THEN Cl("bad_radix_or_negative_must_be_an_error", ErrV(t))
     ELSE Cl("BASE", t.t = "txt" /\ ValidDigits(t.s, r) /\ BOfRadix(t.s, r) = m /\ t.s = UpperS(t.s))
          \o Cl("DECIMAL_inverts_BASE", IsInt(b) /\ ~Neg(b) /\ Mag(b) = m)

RomanClauses(o) ==
  LET t == o.out.a[1]
      b == o.out.a[2]
  IN IF o.in.n < 1 \/ o.in.n > 3999 THEN <<>>
     ELSE Cl("ROMAN_denotes_n", t.t = "txt" /\ ValidRoman(t.s) /\ RomanValue(t.s) = o.in.n)
          \o (IF o.in.form = 0 THEN Cl("ARABIC_inverts_ROMAN", IsNI(b, o.in.n)) ELSE <<>>)

Verdict(o) ==
  LET f == CASE o.kind = "round" -> RoundClauses(o) [] o.kind = "adj" -> AdjClauses(o) [] o.kind = "int" -> IntClauses(o)
             [] o.kind = "qm" -> (IF o.out.t = "arr" THEN QmClauses(o) ELSE <<"formula_failed">>)
             [] o.kind = "fact" -> (IF o.out.t = "arr" THEN FactClauses(o) ELSE <<"formula_failed">>)
             [] o.kind = "factrel" ->      \* n!! = n (n-2)!! and m! = m (m-1)!, for arguments in range (the guard against runaway work is above them)
                  (IF o.out.t # "arr" THEN <<"formula_failed">>
                   ELSE Cl("factorial_recurrence", \A i \in 1..4 : o.out.a[i].t = "bool" /\ o.out.a[i].b))
             [] o.kind = "factfrac" ->     \* a negative argument, whole or not, has no factorial: an error, never a value
                  (IF o.in.x.n < 0
                   THEN Cl("negative_factorial_must_be_an_error", o.out.t = "err" \/ (o.out.t = "arr" /\ ErrV(o.out.a[1]) /\ ErrV(o.out.a[2])))
                   ELSE <<>>)
             [] o.kind = "hex" -> (IF o.out.t = "arr" THEN HexClauses(o) ELSE <<"formula_failed">>)
             [] o.kind = "base" -> (IF o.out.t = "arr" THEN BaseClauses(o) ELSE <<"formula_failed">>)
             [] o.kind = "roman" -> (IF o.out.t = "arr" THEN RomanClauses(o) ELSE <<"formula_failed">>)
             [] o.kind = "cplx" -> Cl("COMPLEX_parts", o.out.t = "arr" /\ IsNI(o.out.a[1], o.in.a) /\ IsNI(o.out.a[2], o.in.b))
  IN IF f = <<>> THEN <<"ok">> ELSE <<"bad">> \o f
Inv == PrintT(<<"V", O.id>> \o Verdict(O))
=============================================================================
