------------------------------- MODULE MC_C06 -------------------------------
(* C06 on the specification: + - * / & over a pool with every operand kind   *)
(* and arrays; commutativity and the error rules are checked on XLOps, every *)
(* case is exported for replay on the real parser.                           *)
EXTENDS XLOps, Json, IOUtils, CSV

Scalars == <<IntV(0), IntV(3), IntV(-4), Num(5, 2), Num(-1, 4), Bool(TRUE), Bool(FALSE), Blank,
             Txt(<<49, 50>>), Txt(<<45, 49, 46, 53>>), Txt(<<43, 51>>),          \* "12" "-1.5" "+3"
             Txt(<<113, 113, 35>>), Txt(<<122, 122>>),                            \* "qq#" "zz"
             Date(2020, 1, 1, 0), Date(2020, 1, 1, 21600000), Date(1900, 1, 10, 0), Date(1900, 3, 1, 0),
             Txt(<<50, 48, 50, 48, 45, 48, 51, 45, 48, 49>>),                     \* "2020-03-01"
             IntV(44000), Num(1, 8)>>
Arrays == <<Arr(<<IntV(1), IntV(2)>>), Arr(<<IntV(1), IntV(2), IntV(3)>>), Arr(<<IntV(5)>>),
            Arr(<<Arr(<<IntV(1), IntV(2)>>), Arr(<<IntV(3), IntV(4)>>)>>), Arr(<<Txt(<<113, 113, 35>>), IntV(0)>>),
            Arr(<<IntV(10), Num(1, 2)>>)>>
Pool == Scalars \o Arrays
Ops == <<"+", "-", "*", "/", "&">>

VARIABLES a, b, op
vars == <<a, b, op>>
Init == a \in 1..Len(Pool) /\ b = 0 /\ op = 0
Next == \/ b = 0 /\ b' \in 1..Len(Pool) /\ UNCHANGED <<a, op>>
        \/ b # 0 /\ op = 0 /\ op' \in 1..Len(Ops) /\ UNCHANGED <<a, b>>
Spec == Init /\ [][Next]_vars
Done == op # 0
A == Pool[a]
B == Pool[IF b = 0 THEN 1 ELSE b]
O == Ops[IF op = 0 THEN 1 ELSE op]
E(o, x, y) == IF o = "&" THEN ConcatExpect(x, y) ELSE ArithExpect(o, x, y)

Commutative == (Done /\ O \in {"+", "*"}) => E(O, A, B) = E(O, B, A)
ErrorRules == (Done /\ O # "&" /\ ~IsArr(A) /\ ~IsArr(B) /\ OperandClass(A) # "unspec" /\ OperandClass(B) # "unspec") =>
  LET e == E(O, A, B) IN
    /\ (OperandClass(A) = "text" \/ OperandClass(B) = "text") => (e.k = "errs" /\ "#VALUE!" \in e.cs)
    /\ (O = "/" /\ OperandClass(A) = "num" /\ OperandClass(B) = "num" /\ NumericQ(B).n = 0) => e = EErrs({"#DIV/0!"})
    /\ (A.t = "date" /\ B.t = "num" /\ O \in {"+", "-"} /\ DateSpecified(A)) => e.k = "ser" /\ e.kind = "date"
ArrayRules == (Done /\ O # "&" /\ IsArr(A) /\ IsArr(B) /\ Len(A.a) # Len(B.a) /\ Len(A.a) > 1 /\ Len(B.a) > 1) =>
  E(O, A, B) = EErrs({"#VALUE!"})
ExportInv == Done => CSVWrite("%1$s", <<ToJson([op |-> O, a |-> A, b |-> B])>>, IOEnv.CASE_FILE)
=============================================================================
