------------------------------- MODULE MC_C08 -------------------------------
(* C08 on the specification: trees of up to three operators/calls whose      *)
(* leaves are plain values or error sources (literal, 1/0, NA(), a function  *)
(* returning an error value, a function raising one, a built-in raising one  *)
(* from an argument).  The trapping laws are checked on XLEval and every     *)
(* tree is exported for replay.                                              *)
EXTENDS XLEval, Json, IOUtils, CSV

CONSTANT Deep      \* TRUE: three-level shapes over the full leaf pool

N(lex) == [k |-> "num", s |-> lex]
C(f, args) == [k |-> "call", f |-> f, args |-> args]
B(op, l, r) == [k |-> "bin", op |-> op, l |-> l, r |-> r]
P(e) == IF e.k \in {"bin", "neg"} THEN [k |-> "paren", e |-> e] ELSE e
One == N(<<49>>)
Zero == N(<<48>>)

LitCodes == <<"#ERROR!", "#DIV/0!", "#NAME?", "#N/A", "#NULL!", "#NUM!", "#REF!", "#VALUE!">>
FnCodes == <<"#DIV/0!", "#N/A", "#VALUE!", "#NUM!">>
FnTag == <<"D", "A", "V", "N">>

PlainLeaves == <<One, N(<<50>>), [k |-> "str", s |-> <<113, 113>>]>>
LitLeaves == [i \in 1..8 |-> [k |-> "errlit", c |-> LitCodes[i]]]
SrcLeaves == <<B("/", One, Zero), C("NA", <<>>)>>
             \o [i \in 1..4 |-> C("ERRV" \o FnTag[i], <<>>)]          \* returns the error value
             \o [i \in 1..4 |-> C("ERRR" \o FnTag[i], <<>>)]          \* raises it
             \o [i \in 1..2 |-> C("SUM", <<C("ERRV" \o FnTag[i], <<>>)>>)]   \* a built-in raises it
Leaves == PlainLeaves \o LitLeaves \o SrcLeaves
SmallLeaves == <<One, [k |-> "str", s |-> <<113, 113>>], LitLeaves[7], B("/", One, Zero), C("NA", <<>>),
                 C("ERRRN", <<>>), C("ERRVV", <<>>)>>

Env == [vars |-> <<>>,
        funcs |-> [f \in {"ERRV" \o FnTag[i] : i \in 1..4} \cup {"ERRR" \o FnTag[i] : i \in 1..4} |->
                     LET i == CHOOSE j \in 1..4 : f \in {"ERRV" \o FnTag[j], "ERRR" \o FnTag[j]}
                     IN [mode |-> IF f = "ERRV" \o FnTag[i] THEN "const" ELSE "raise", v |-> Err(FnCodes[i]), i |-> 0]],
        cellsets |-> <<>>, rangesets |-> <<>>, varsets |-> <<>>, fnsets |-> <<>>]

BinOps == <<"+", "-", "*", "/", "&", "=", "<", "<>", ">=">>
Wrap(w, x) ==
  CASE w = 1 -> [k |-> "neg", e |-> P(x)]
    [] w = 2 -> C("ISERROR", <<x>>)
    [] w = 3 -> C("ISERR", <<x>>)
    [] w = 4 -> C("ISNA", <<x>>)
    [] w = 5 -> C("ERROR.TYPE", <<x>>)
    [] w = 6 -> C("IFERROR", <<x, N(<<57>>)>>)
    [] w = 7 -> C("IFNA", <<x, N(<<57>>)>>)
    [] w = 8 -> C("SUM", <<x>>)
    [] w = 9 -> C("IFERROR", <<N(<<57>>), x>>)
    [] w = 10 -> C("IF", <<x, One, N(<<50>>)>>)
NWrap == 10

(* shapes: number of leaves, binary operators and wrappers they need *)
TreeOf(sh, L, o, w) ==
  CASE sh = 1 -> Wrap(w[1], L[1])
    [] sh = 2 -> B(BinOps[o[1]], P(L[1]), P(L[2]))
    [] sh = 3 -> Wrap(w[1], B(BinOps[o[1]], P(L[1]), P(L[2])))
    [] sh = 4 -> B(BinOps[o[1]], P(Wrap(w[1], L[1])), P(L[2]))
    [] sh = 5 -> B(BinOps[o[1]], P(L[1]), P(Wrap(w[1], L[2])))
    [] sh = 6 -> Wrap(w[1], Wrap(w[2], L[1]))
    [] sh = 7 -> B(BinOps[o[1]], P(B(BinOps[o[2]], P(L[1]), P(L[2]))), P(L[3]))
    [] sh = 8 -> B(BinOps[o[1]], P(L[1]), P(B(BinOps[o[2]], P(L[2]), P(L[3]))))
    [] sh = 9 -> Wrap(w[1], Wrap(w[2], B(BinOps[o[1]], P(L[1]), P(L[2]))))
NL(sh) == CASE sh \in {1, 6} -> 1 [] sh \in {2, 3, 4, 5, 9} -> 2 [] OTHER -> 3
NO(sh) == CASE sh \in {1, 6} -> 0 [] sh \in {2, 3, 4, 5, 9} -> 1 [] OTHER -> 2
NW(sh) == CASE sh \in {2, 7, 8} -> 0 [] sh \in {1, 3, 4, 5} -> 1 [] OTHER -> 2
Pool(sh) == IF sh <= 2 \/ (Deep /\ sh <= 6) THEN Leaves ELSE SmallLeaves
Shapes == IF Deep THEN 1..9 ELSE 1..8

VARIABLES sh, ls, os, ws
vars == <<sh, ls, os, ws>>
Init == sh \in Shapes /\ ls = <<>> /\ os = <<>> /\ ws = <<>>
Next == \/ /\ Len(ls) < NL(sh)
           /\ \E i \in 1..Len(Pool(sh)) : ls' = Append(ls, i)
           /\ UNCHANGED <<sh, os, ws>>
        \/ /\ Len(ls) = NL(sh) /\ Len(os) < NO(sh)
           /\ \E i \in 1..Len(BinOps) : os' = Append(os, i)
           /\ UNCHANGED <<sh, ls, ws>>
        \/ /\ Len(ls) = NL(sh) /\ Len(os) = NO(sh) /\ Len(ws) < NW(sh)
           /\ \E i \in 1..NWrap : ws' = Append(ws, i)
           /\ UNCHANGED <<sh, ls, os>>
Spec == Init /\ [][Next]_vars

Complete == Len(ls) = NL(sh) /\ Len(os) = NO(sh) /\ Len(ws) = NW(sh)
Tree == TreeOf(sh, [i \in 1..Len(ls) |-> Pool(sh)[ls[i]]], os, ws)

(* the laws, for the subtree x = first leaf or the inner binary node *)
Val(x) == Ev(x, Env)
IsErrE(r) == r.ab = "" /\ r.e.k = "val" /\ IsErr(r.e.v)
Tr(f, x) == Ev(C(f, <<x>>), Env)
TruthOf(r) == r.e.b     \* of an ETruth expectation
TrapLaws == Complete =>
  LET x == Pool(sh)[ls[1]]
      r == Val(x)
  IN r.ab = "" /\ r.e.k = "val" =>
       /\ TruthOf(Tr("ISERROR", x)) = (TruthOf(Tr("ISERR", x)) \/ TruthOf(Tr("ISNA", x)))
       /\ TruthOf(Tr("ISERROR", x)) = IsErr(r.e.v)
       /\ (Ev(C("IFERROR", <<x, N(<<57>>)>>), Env).e = EVal(IntV(9))) = IsErr(r.e.v)
(* an error operand decides the operator's value: the left one first *)
Strict == (Complete /\ sh = 2) =>
  LET l == Val(Pool(sh)[ls[1]])
      r == Val(Pool(sh)[ls[2]])
      t == Val(Tree)
  IN /\ l.ab # "" => t.ab = l.ab
     /\ (l.ab = "" /\ IsErrE(l) /\ r.ab = "") => t.e = l.e
     /\ (l.ab = "" /\ l.e.k = "val" /\ ~IsErr(l.e.v) /\ IsErrE(r)) => t.e = r.e
ExportInv == Complete => CSVWrite("%1$s", <<ToJson([ast |-> Tree])>>, IOEnv.CASE_FILE)
=============================================================================
