SPECIFICATION TSpec
CONSTANTS
  Names = {"x", "y", "z", "callVariable", "callFunction", "callCellValue", "callRangeValue"}
  OnceGuard = TRUE
INVARIANT Verdict
CHECK_DEADLOCK FALSE
