SPECIFICATION TSpec
CONSTANTS
  Names = {"x", "y", "z", "callVariable", "callFunction", "callCellValue", "callRangeValue", "xy", "callVariableX", "X", "Xy", "callvariable"}
  OnceGuard = TRUE
INVARIANT Verdict
CHECK_DEADLOCK FALSE
