SPECIFICATION Spec
CONSTANTS
  CanonResult = FALSE
  GuardStr = TRUE
INVARIANT Total
CHECK_DEADLOCK FALSE
