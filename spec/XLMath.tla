------------------------------- MODULE XLMath -------------------------------
(***************************************************************************)
(* Rounding and integer functions as relations between the exact rational  *)
(* argument(s) and the result (C17); radix conversions over BigNat.        *)
(***************************************************************************)
EXTENDS XLValue, BigNat

QHalf == [n |-> 1, d |-> 2]
(* 10^-digits as a rational, digits in -4..4 *)
Unit(d) == IF d >= 0 THEN [n |-> 1, d |-> Pow10(d)] ELSE [n |-> Pow10(-d), d |-> 1]
IsMultiple(r, u) == LET q == QDiv(r, u) IN q.d = 1          \* u # 0
SameSignOrZero(r, x) == r.n = 0 \/ SgnI(r.n) = SgnI(x.n)

(* keep 32-bit arithmetic safe *)
RoundSafe(x, d) == d >= -4 /\ d <= 4 /\ AbsI(x.n) <= 2000000 /\ x.d <= 1000 /\ (x.d * Pow10(IF d > 0 THEN d ELSE 0) <= 1000000)
ResSafe(r) == AbsI(r.n) <= 200000000 /\ r.d <= 1000000

RoundRel(x, d, r) == /\ IsMultiple(r, Unit(d)) /\ QLe(QAbs(QSub(r, x)), QMul(Unit(d), QHalf))
RoundUpRel(x, d, r) == /\ IsMultiple(r, Unit(d)) /\ SameSignOrZero(r, x)
                       /\ QLe(QAbs(x), QAbs(r)) /\ QLt(QSub(QAbs(r), QAbs(x)), Unit(d))
RoundDownRel(x, d, r) == /\ IsMultiple(r, Unit(d)) /\ SameSignOrZero(r, x)
                         /\ QLe(QAbs(r), QAbs(x)) /\ QLt(QSub(QAbs(x), QAbs(r)), Unit(d))

(* Unit-scale rounding of numbers up to 2*10^9 with at most three decimals  *)
(* (1234567.001): the result is a whole number r; written with integer     *)
(* products that stay below 2^31.                                          *)
BigUnitSafe(x) == x.d >= 1 /\ x.d <= 1000 /\ AbsI(x.n) <= 2000000000
WholeNear(x, r) == r.d = 1 /\ AbsI(r.n) <= (AbsI(x.n) \div x.d) + 1
UpAbs0(x, r) == AbsI(r.n) * x.d >= AbsI(x.n) /\ (AbsI(r.n) - 1) * x.d < AbsI(x.n)         \* |r| = ceiling of |x|
DownAbs0(x, r) == AbsI(r.n) * x.d <= AbsI(x.n) /\ (AbsI(r.n) + 1) * x.d > AbsI(x.n)       \* |r| = floor of |x|
Near0(x, r) == LET diff == AbsI(AbsI(r.n) * x.d - AbsI(x.n)) IN diff <= x.d \div 2 \/ (x.d % 2 = 0 /\ diff = x.d \div 2)
Ceil0(x, r) == r.n * x.d >= x.n /\ (r.n - 1) * x.d < x.n
Floor0(x, r) == r.n * x.d <= x.n /\ (r.n + 1) * x.d > x.n

(* CEILING / FLOOR: adjacent multiple of |sig| on the documented side.     *)
(* side = "up" means r >= x, "down" means r <= x                           *)
AdjacentRel(x, s, r, side) ==
  /\ IsMultiple(r, QAbs(s))
  /\ IF side = "up" THEN QLe(x, r) /\ QLt(QSub(r, x), QAbs(s)) ELSE QLe(r, x) /\ QLt(QSub(x, r), QAbs(s))

FloorQ(x) == QFloor(x)
(* EVEN / ODD: integer of that parity, at or beyond x away from zero, nearest *)
ParityRel(x, r, par) ==        \* par = 0 even, 1 odd
  /\ r.d = 1 /\ (AbsI(r.n) % 2) = par
  /\ IF x.n = 0 THEN AbsI(r.n) = par                                   \* 0 -> 0 ; 0 -> +-1
     ELSE /\ SgnI(r.n) = SgnI(x.n) /\ QLe(QAbs(x), QAbs(r)) /\ QLt(QSub(QAbs(r), QAbs(x)), QI(2))
TruncQuot(n, d) == LET q == QDiv(n, d) IN IF q.n >= 0 THEN q.n \div q.d ELSE -((-q.n) \div q.d)
ModVal(n, d) == QSub(n, QMul(d, QI(QFloor(QDiv(n, d)))))

(* Roman numerals, general subtractive evaluation *)
RomanSym(c) == CASE c = 73 -> 1 [] c = 86 -> 5 [] c = 88 -> 10 [] c = 76 -> 50 [] c = 67 -> 100 [] c = 68 -> 500 [] c = 77 -> 1000 [] OTHER -> 0
RECURSIVE RomanValue(_)
RomanValue(s) ==
  IF s = <<>> THEN 0
  ELSE IF Len(s) >= 2 /\ RomanSym(s[1]) < RomanSym(s[2]) THEN RomanValue(Tail(s)) - RomanSym(s[1])
  ELSE RomanSym(s[1]) + RomanValue(Tail(s))
ValidRoman(s) == s # <<>> /\ \A i \in 1..Len(s) : RomanSym(s[i]) > 0
=============================================================================
