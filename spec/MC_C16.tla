------------------------------- MODULE MC_C16 -------------------------------
(* C16 on the specification: where each real-valued function is defined.     *)
(* Over a grid of rationals with every boundary point, for numbers, numeric  *)
(* text, logicals and other text: the domain predicates are consistent       *)
(* (symmetry, complementarity of ATANH/ACOTH, LOG/LN agreement) and every    *)
(* (function, argument) case is exported for replay.  Values themselves      *)
(* cannot be model-checked (TLA+ has no transcendental functions); they are  *)
(* covered by the identities on the conformance side.                        *)
EXTENDS XLFuncs, Json, IOUtils, CSV

Grid == <<Num(-5, 1), Num(-2, 1), Num(-3, 2), Num(-1, 1), Num(-999, 1000), Num(-1, 2), Num(-1, 1000), IntV(0), Num(1, 1000),
          Num(1, 2), Num(999, 1000), IntV(1), Num(1001, 1000), Num(3, 2), IntV(2), IntV(10), IntV(100), Num(5, 2)>>
Others == <<Bool(TRUE), Bool(FALSE), Txt(<<48, 46, 53>>), Txt(<<45, 50>>), Txt(<<113, 113, 35>>), Txt(<<>>), Blank>>
Args1 == Grid \o Others

VARIABLES f, a, b
vars == <<f, a, b>>
Fns == Math1 \cup {"ATAN2", "LOG", "POWER", "ABS"}
Init == f \in Fns /\ a = 0 /\ b = 0
Next == \/ a = 0 /\ a' \in 1..Len(Args1) /\ UNCHANGED <<f, b>>
        \/ a # 0 /\ b = 0 /\ f \in {"ATAN2", "LOG", "POWER"} /\ b' \in 1..Len(Args1) /\ UNCHANGED <<f, a>>
Spec == Init /\ [][Next]_vars
Done == a # 0 /\ (f \in {"ATAN2", "LOG", "POWER"} => b # 0)
Args == IF f \in {"ATAN2", "LOG", "POWER"} THEN <<Args1[a], Args1[IF b = 0 THEN 1 ELSE b]>> ELSE <<Args1[a]>>
E == BuiltinExpect(f, Args)

NegV(v) == NumQ(QNeg(QOf(v)))
Consistency == (Done /\ Args[1].t = "num") =>
  LET x == Args[1] IN
    /\ (f \in {"ASIN", "ACOS", "ATANH", "ACOTH"} => BuiltinExpect(f, <<NegV(x)>>) = E)                    \* symmetric domains
    /\ (f = "ATANH" /\ x.n # x.d /\ x.n # -x.d =>
          (E = EAnyNum) # (BuiltinExpect("ACOTH", <<x>>) = EAnyNum))                                        \* complementary away from +-1
    /\ (f = "LN" => BuiltinExpect("LOG10", <<x>>) = E /\ BuiltinExpect("LOG", <<x, IntV(10)>>) = E)
    /\ (f = "SQRT" /\ x.n > 0 => BuiltinExpect("LN", <<x>>) = EAnyNum)
    /\ (f = "ACOSH" => (E = EAnyNum) = (x.n >= x.d))
Coercions == Done =>
  ( /\ ((Args[1] = Bool(TRUE) /\ f \in Math1) => E = BuiltinExpect(f, <<IntV(1)>>))
    /\ ((Args[1] = Txt(<<48, 46, 53>>) /\ f \in Math1) => E = BuiltinExpect(f, <<Num(1, 2)>>))
    /\ ((Args[1] = Txt(<<113, 113, 35>>) /\ (Len(Args) = 1 \/ Args[2].t = "num")) => E.k = "errs") )
ExportInv == Done => CSVWrite("%1$s", <<ToJson([f |-> f, args |-> Args])>>, IOEnv.CASE_FILE)
=============================================================================
