------------------------------- MODULE XLText -------------------------------
(***************************************************************************)
(* Text functions on code point sequences (C15).  Where the statement      *)
(* fixes the value there is a function; where it only states a law         *)
(* ("changes only letter case", "only surplus spaces") there is a          *)
(* relation between input and output and nothing more.                     *)
(***************************************************************************)
EXTENDS Integers, Sequences, FiniteSets

MinN(a, b) == IF a <= b THEN a ELSE b
MaxN(a, b) == IF a >= b THEN a ELSE b

Left(s, n) == SubSeq(s, 1, MinN(n, Len(s)))                       \* n >= 0
Right(s, n) == SubSeq(s, Len(s) - MinN(n, Len(s)) + 1, Len(s))    \* n >= 0
Mid(s, start, n) == SubSeq(s, start, MinN(start + n - 1, Len(s))) \* start >= 1, n >= 0

StartsWith(s, p) == Len(p) <= Len(s) /\ SubSeq(s, 1, Len(p)) = p

(* replace every occurrence (left to right, non-overlapping); old # <<>> *)
RECURSIVE SubstAll(_, _, _)
SubstAll(s, old, new) ==
  IF s = <<>> THEN <<>>
  ELSE IF StartsWith(s, old) THEN new \o SubstAll(SubSeq(s, Len(old) + 1, Len(s)), old, new)
  ELSE <<Head(s)>> \o SubstAll(Tail(s), old, new)

(* replace the k-th occurrence only (k >= 1) *)
RECURSIVE SubstNth(_, _, _, _)
SubstNth(s, old, new, k) ==
  IF s = <<>> THEN <<>>
  ELSE IF StartsWith(s, old)
       THEN IF k = 1 THEN new \o SubSeq(s, Len(old) + 1, Len(s))
            ELSE old \o SubstNth(SubSeq(s, Len(old) + 1, Len(s)), old, new, k - 1)
  ELSE <<Head(s)>> \o SubstNth(Tail(s), old, new, k)

(* old overlaps itself if a proper suffix is a prefix ("aa", "aba") *)
SelfOverlapping(old) == \E j \in 1..(Len(old) - 1) : SubSeq(old, Len(old) - j + 1, Len(old)) = SubSeq(old, 1, j)

RECURSIVE JoinSeq(_, _)
JoinSeq(items, delim) ==     \* items: Seq(Seq(Nat))
  IF items = <<>> THEN <<>>
  ELSE IF Len(items) = 1 THEN items[1]
  ELSE items[1] \o delim \o JoinSeq(Tail(items), delim)

(***************************************************************************)
(* letter case over the exercised alphabet: ASCII plus é É ü Ü ñ Ñ          *)
(***************************************************************************)
UpC(c) == IF c >= 97 /\ c <= 122 THEN c - 32
          ELSE IF c \in {233, 252, 241} THEN c - 32 ELSE c
LowC(c) == IF c >= 65 /\ c <= 90 THEN c + 32
           ELSE IF c \in {201, 220, 209} THEN c + 32 ELSE c
IsLowerL(c) == UpC(c) # c
IsUpperL(c) == LowC(c) # c
SameUpToCase(s, t) == Len(s) = Len(t) /\ \A i \in 1..Len(s) : t[i] \in {s[i], UpC(s[i]), LowC(s[i])}

UpperRel(s, t) == SameUpToCase(s, t) /\ \A i \in 1..Len(t) : ~IsLowerL(t[i])
LowerRel(s, t) == SameUpToCase(s, t) /\ \A i \in 1..Len(t) : ~IsUpperL(t[i])
ProperRel(s, t) == SameUpToCase(s, t)

(* t is s with some occurrences of characters from set D deleted *)
RECURSIVE DeletesOnly(_, _, _)
DeletesOnly(s, t, D) ==
  IF t = <<>> THEN \A i \in 1..Len(s) : s[i] \in D
  ELSE IF s = <<>> THEN FALSE
  ELSE IF s[1] = t[1] THEN (IF s[1] \in D
                            THEN DeletesOnly(Tail(s), Tail(t), D) \/ DeletesOnly(Tail(s), t, D)
                            ELSE DeletesOnly(Tail(s), Tail(t), D))
  ELSE s[1] \in D /\ DeletesOnly(Tail(s), t, D)

TrimRel(s, t) == /\ DeletesOnly(s, t, {32})
                 /\ (t # <<>> => t[1] # 32 /\ t[Len(t)] # 32)
                 /\ \A i \in 1..(Len(t) - 1) : ~(t[i] = 32 /\ t[i + 1] = 32)
Controls == 0..31
CleanRel(s, t) == DeletesOnly(s, t, Controls) /\ \A i \in 1..Len(t) : t[i] >= 32
=============================================================================
