------------------------------- MODULE MC_C11 -------------------------------
(* C11 on the specification: for every list up to MaxLen over a small pool   *)
(* of rationals every order-free statistic is invariant under permutation    *)
(* and regrouping (flat arguments, one array, nested arrays), error items    *)
(* win for the six named functions, and the criteria functions select        *)
(* consistently (SUMIF(=x) + SUMIF(<>x) = SUM, COUNTIF partitions the        *)
(* count).  Every call is exported for replay on the real parser.            *)
EXTENDS XLFuncs, Json, IOUtils, CSV

CONSTANT MaxLen
Pool == <<Num(-2, 1), IntV(0), IntV(1), Num(3, 2), IntV(3)>>
Stats == {"SUM", "PRODUCT", "AVERAGE", "MIN", "MAX", "COUNT", "MEDIAN", "MODE", "VAR", "VARP", "AVEDEV"}
Crits == <<Txt(<<62, 48>>), Txt(<<60, 61, 49>>), Txt(<<61, 49>>), Txt(<<60, 62, 49>>), IntV(1), Txt(<<51>>), Txt(<<62, 49, 46, 53>>)>>
          \* ">0" "<=1" "=1" "<>1" 1 "3" ">1.5"

VARIABLES xs, fin
vars == <<xs, fin>>
Init == xs = <<>> /\ fin = FALSE
Next == \/ ~fin /\ Len(xs) < MaxLen /\ \E i \in 1..Len(Pool) : xs' = Append(xs, Pool[i]) /\ fin' = fin
        \/ ~fin /\ xs # <<>> /\ fin' = TRUE /\ xs' = xs
Spec == Init /\ [][Next]_vars

Rev(s) == [i \in 1..Len(s) |-> s[Len(s) - i + 1]]
Rot(s) == IF s = <<>> THEN s ELSE Tail(s) \o <<Head(s)>>
Nested(s) == IF Len(s) <= 1 THEN s ELSE <<s[1], Arr(<<s[2], Arr(SubSeq(s, 3, Len(s)))>>)>>

OrderFree == fin => \A f \in Stats :
   LET e == AggExpect(f, xs) IN
     /\ AggExpect(f, Rev(xs)) = e /\ AggExpect(f, Rot(xs)) = e
     /\ AggExpect(f, <<Arr(xs)>>) = e /\ AggExpect(f, Nested(xs)) = e
ErrorWinsLaw == fin => \A f \in ErrorWins :
   /\ AggExpect(f, Append(xs, Err("#N/A"))) = EVal(Err("#N/A"))
   /\ AggExpect(f, <<Err("#REF!")>> \o xs \o <<Err("#N/A")>>) = EVal(Err("#REF!"))
   /\ AggExpect(f, <<Arr(Append(xs, Err("#DIV/0!")))>>) = EVal(Err("#DIV/0!"))
SelectionLaws == fin =>
   LET r == Arr(xs)
       v(e) == QOf(e.v)
   IN /\ QEq(QAdd(v(CriteriaExpect("SUMIF", <<r, Crits[3]>>)), v(CriteriaExpect("SUMIF", <<r, Crits[4]>>))), v(AggExpect("SUM", xs)))
      /\ CriteriaExpect("COUNTIF", <<r, Crits[3]>>).v.n + CriteriaExpect("COUNTIF", <<r, Crits[4]>>).v.n = Len(xs)
      /\ CriteriaExpect("COUNTIF", <<r, Crits[5]>>) = CriteriaExpect("COUNTIF", <<r, Crits[3]>>)
      /\ CriteriaExpect("SUMIFS", <<r, r, Crits[1], r, Crits[2]>>).k = "val"
      /\ (CriteriaExpect("COUNTIF", <<r, Crits[1]>>).v.n = 0 =>
             /\ CriteriaExpect("SUMIF", <<r, Crits[1]>>) = EVal(IntV(0)) /\ CriteriaExpect("MAXIFS", <<r, r, Crits[1]>>) = EVal(IntV(0))
             /\ CriteriaExpect("AVERAGEIF", <<r, Crits[1]>>) = EAnyErr)
ExportInv == fin => CSVWrite("%1$s", <<ToJson([xs |-> xs])>>, IOEnv.CASE_FILE)
=============================================================================
