------------------------------- MODULE MC_C09 -------------------------------
(* C09 on the specification: every history of at most H registrations on    *)
(* two parsers, probed with formulas that put a variable or a function call *)
(* in six syntactic contexts.  Histories are exported for replay.           *)
EXTENDS XLParser, Json, IOUtils, CSV

CONSTANT H

VarNames == {"va", "vb"}
UnknownVar == "vu"
FnNames == {"FA", "SUM"}           \* SUM: a custom function shadows the built-in
UnknownFn == "FZ"
Vals == {IntV(4), Txt(<<113, 113>>)}
Modes == {[mode |-> "const", v |-> IntV(7), i |-> 0], [mode |-> "arg", v |-> Blank, i |-> 1]}

Ops == [k : {"setvar"}, p : Parsers, name : VarNames, x : Vals]
         \cup [k : {"setfn"}, p : Parsers, name : FnNames, x : Modes]

VARIABLE hist
vars == <<st, hist>>
Init == PInit /\ hist = <<>>
Do(o) == /\ Len(hist) < H
         /\ IF o.k = "setvar" THEN SetVariable(o.p, o.name, o.x) ELSE SetFunction(o.p, o.name, o.x)
         /\ hist' = Append(hist, o)
Next == \E o \in Ops : Do(o)
Spec == Init /\ [][Next]_vars

N(lex) == [k |-> "num", s |-> lex]
V(n) == [k |-> "var", name |-> n]
C(f, args) == [k |-> "call", f |-> f, args |-> args]
B(op, l, r) == [k |-> "bin", op |-> op, l |-> l, r |-> r]
Contexts(x) == {x, B("+", x, N(<<49>>)), B("+", N(<<49>>), x), C("ABS", <<x>>),
                C("SUM", <<N(<<49>>), C("ABS", <<x>>)>>), [k |-> "arr", items |-> <<N(<<49>>), x>>]}

(* the value a variable was last given on p, or "none" *)
LastSet(p, n) == LET idx == {i \in 1..Len(hist) : hist[i].k = "setvar" /\ hist[i].p = p /\ hist[i].name = n}
                 IN IF idx = {} THEN [t |-> "none"] ELSE hist[CHOOSE i \in idx : \A j \in idx : j <= i].x

VariableLaw == \A p \in Parsers, n \in VarNames :
   IF LastSet(p, n).t = "none" THEN Outcome(p, V(n)) = EVal(Err("#NAME?"))
   ELSE Outcome(p, V(n)) = EVal(LastSet(p, n))
Predefined == \A p \in Parsers :
   /\ Outcome(p, V("TRUE")) = EVal(Bool(TRUE)) /\ Outcome(p, V("FALSE")) = EVal(Bool(FALSE))
   /\ Outcome(p, V("NULL")) = EVal(Blank)
UnknownIsName == \A p \in Parsers :
   /\ \A a \in Contexts(V(UnknownVar)) : Outcome(p, a) = EVal(Err("#NAME?"))
   /\ \A a \in Contexts(C(UnknownFn, <<N(<<50>>)>>)) : Outcome(p, a) = EVal(Err("#NAME?"))
CustomShadowsBuiltin == \A p \in Parsers :
   ("SUM" \in DOMAIN st[p].funcs /\ st[p].funcs["SUM"].mode = "const") =>
       Outcome(p, C("SUM", <<N(<<50>>), N(<<51>>)>>)) = EVal(IntV(7))
BuiltinWhenNotShadowed == \A p \in Parsers :
   ("SUM" \notin DOMAIN st[p].funcs) => Outcome(p, C("SUM", <<N(<<50>>), N(<<51>>)>>)) = EVal(IntV(5))
(* registrations are private to their parser *)
BindingsPrivate == [][\A o \in Ops : \A q \in Parsers \ {o.p} :
                        (hist' = Append(hist, o)) => st'[q] = st[q]]_vars

ExportInv == (Len(hist) = H) => CSVWrite("%1$s", <<ToJson([hist |-> hist])>>, IOEnv.CASE_FILE)
=============================================================================
