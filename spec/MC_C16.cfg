SPECIFICATION Spec
INVARIANT Consistency
INVARIANT Coercions
INVARIANT ExportInv
CHECK_DEADLOCK FALSE
