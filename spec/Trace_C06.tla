------------------------------ MODULE Trace_C06 ------------------------------
(* C06: [id, op, ast, env, out, out2] - out is the outcome of  a op b  (the    *)
(* tree ast over the variables/cells of env), out2 that of  b op a.  The       *)
(* outcome must be the one XLEval/XLOps give, and + and * must commute on the  *)
(* real code as well.                                                          *)
EXTENDS TraceKit, XLEval
CONSTANT OpenDevs
Failing(o) ==
  (IF ~OutcomeMatchesX(TopExpect(o.ast, o.env), o.out) THEN <<"value">> ELSE <<>>)
  \o (IF o.op \in {"+", "*"} /\ (o.out.res # o.out2.res \/ o.out.err # o.out2.err) THEN <<"not_commutative">> ELSE <<>>)
(* Known finding DevNestedSingleton (the singleton is unwrapped on one side     *)
(* only: one nesting level is lost and the two orders differ): an array whose only element is itself a   *)
(* array is spread over a longer array when it is the left operand *)
(* but gives #VALUE! as the right operand.                                     *)
Singleton(v) == IsArr(v) /\ Len(v.a) = 1 /\ IsArr(v.a[1])
DevNestedSingleton(o) ==
  /\ Failing(o) \in {<<"not_commutative">>, <<"value", "not_commutative">>, <<"value">>}
  /\ \/ (Singleton(o.in.a) /\ IsArr(o.in.b))
     \/ (Singleton(o.in.b) /\ IsArr(o.in.a))
DevHolds(d, o) == CASE d = "DevNestedSingleton" -> DevNestedSingleton(o) [] OTHER -> FALSE
Verdict(o) == LET f == Failing(o) IN
  IF f = <<>> THEN <<"ok">>
  ELSE LET ds == {d \in OpenDevs : DevHolds(d, o)}
       IN IF ds # {} THEN <<"dev", CHOOSE d \in ds : TRUE>> ELSE <<"bad">> \o f
Inv == PrintT(<<"V", O.id>> \o Verdict(O))
=============================================================================
