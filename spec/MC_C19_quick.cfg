SPECIFICATION Spec
CONSTANTS NCols = 18278
INVARIANT RoundTrip
INVARIANT LowerSame
INVARIANT Ordered
INVARIANT WellFormed
INVARIANT RowRound
INVARIANT ShapeRound
CHECK_DEADLOCK FALSE
