------------------------------- MODULE XLTotal -------------------------------
(***************************************************************************)
(* C01: the wrapper around an evaluation - what Parser.parse makes of      *)
(* whatever the evaluation produced: a value of any kind handed back by    *)
(* the grammar (possibly supplied by a host callback) or an exception of   *)
(* any kind escaping from it.  The record must be well-formed for every    *)
(* one of them.  Two guards of the design are parameters, so that TLC can  *)
(* show they are necessary:                                                *)
(*   CanonResult  an error object returned as the value is mapped through  *)
(*                the closed code table (else its own text is reported)    *)
(*   GuardStr     taking the text of an escaped exception cannot itself    *)
(*                escape (an exception whose __str__ raises)               *)
(***************************************************************************)
EXTENDS Naturals, Sequences, TLC

CONSTANTS CanonResult, GuardStr

Codes == {"#ERROR!", "#DIV/0!", "#NAME?", "#N/A", "#NULL!", "#NUM!", "#REF!", "#VALUE!", "#GETTING_DATA"}
OtherTexts == {"#SPILL!", "boom", ""}

(* what the evaluation ends with *)
Ends == [k : {"value"}, t : {"num", "txt", "blank", "bool", "date", "arr", "opq"}, m : {""}]
          \cup [k : {"value"}, t : {"err"}, m : Codes \cup {"#SPILL!"}]        \* an error object as the value
          \cup [k : {"raise"}, t : {"xlerror", "exception"}, m : Codes \cup OtherTexts]
          \cup [k : {"raise"}, t : {"badstr"}, m : {""}]                        \* str(exception) raises

VARIABLES pc, end, rec
vars == <<pc, end, rec>>

FromMessage(m) == IF m \in Codes THEN m ELSE "#ERROR!"

Init == pc = "eval" /\ end \in Ends /\ rec = [raised |-> FALSE, result |-> "none", error |-> ""]

ParseEnd ==
  /\ pc = "eval"
  /\ pc' = "done"
  /\ end' = end
  /\ rec' =
       IF end.k = "raise"
       THEN IF end.t = "badstr"
            THEN (IF GuardStr THEN [raised |-> FALSE, result |-> "none", error |-> "#ERROR!"]
                  ELSE [raised |-> TRUE, result |-> "none", error |-> ""])
            ELSE [raised |-> FALSE, result |-> "none", error |-> FromMessage(end.m)]
       ELSE IF end.t = "err"
            THEN [raised |-> FALSE, result |-> "none", error |-> IF CanonResult THEN FromMessage(end.m) ELSE end.m]
            ELSE [raised |-> FALSE, result |-> end.t, error |-> ""]
Next == ParseEnd
Spec == Init /\ [][Next]_vars

WellFormedRec(r) == /\ ~r.raised
                    /\ r.error \in Codes \cup {""}
                    /\ (r.error # "" => r.result = "none")
                    /\ r.result # "err"
Total == pc = "done" => WellFormedRec(rec)
=============================================================================
