------------------------------ MODULE MC_C20 ------------------------------
(* Bounded exploration of the emitter: every driver history of at most H   *)
(* operations, every assignment of a script (a short operation sequence    *)
(* run by the callback while it is being delivered) to the callbacks.      *)
(* Terminal behaviours are exported as JSON for replay on the real code.   *)
EXTENDS Emitter, TLC, Json, IOUtils, CSV

CONSTANTS Cbs,         \* callback ids (1..n)
          H,           \* length of driver histories
          MaxScripted, \* how many callbacks may have a non-empty script
          MaxScriptLen,
          MaxDepth,    \* a callback nested deeper than this runs no script
          Export       \* BOOLEAN: write terminal behaviours to IOEnv.CASE_FILE

VARIABLES hist,    \* driver operations so far
          script,  \* [Cbs -> Seq(op)]
          pc       \* [stack position -> script position]  (kept in the frame via id) -- see below

vars == <<subs, stack, fired, log, nextId, nextEid, hist, script, pc>>

Ctxs == {<<>>, <<7>>}
Args == {<<>>, <<1>>}

Ops == [k : {"on", "once"}, n : Names, cb : Cbs, x : Ctxs]
         \cup [k : {"off"}, n : Names, cb : {0}, x : {<<>>}]
         \cup [k : {"offcb"}, n : Names, cb : Cbs, x : {<<>>}]
         \cup [k : {"emit"}, n : Names, cb : {0}, x : Args]

(* scripts use a reduced operation pool: no contexts, one argument tuple   *)
SOps == [k : {"on", "once"}, n : Names, cb : Cbs, x : {<<>>}]
         \cup [k : {"off"}, n : Names, cb : {0}, x : {<<>>}]
         \cup [k : {"offcb"}, n : Names, cb : Cbs, x : {<<>>}]
         \cup [k : {"emit"}, n : Names, cb : {0}, x : {<<>>}]

Scripts == UNION {[1..m -> SOps] : m \in 0..MaxScriptLen}

Init == /\ EInit
        /\ hist = <<>>
        /\ script \in {s \in [Cbs -> Scripts] :
                          Cardinality({c \in Cbs : s[c] # <<>>}) <= MaxScripted}
        /\ pc = <<>>

(* pc[i] is the script position of the i-th "cb" frame of the stack        *)
Driver(o) == /\ stack = <<>>
             /\ Len(hist) < H
             /\ Apply(o)
             /\ hist' = Append(hist, o)
             /\ UNCHANGED <<script, pc>>

TopPc == pc[Len(pc)]

ScriptStep == /\ InCb
              /\ Depth <= MaxDepth
              /\ TopPc <= Len(script[Top.cb])
              /\ Apply(script[Top.cb][TopPc])
              /\ pc' = [pc EXCEPT ![Len(pc)] = @ + 1]
              /\ UNCHANGED <<hist, script>>

ScriptDone == /\ InCb
              /\ (Depth > MaxDepth \/ TopPc > Len(script[Top.cb]))
              /\ CbReturn
              /\ pc' = SubSeq(pc, 1, Len(pc) - 1)
              /\ UNCHANGED <<hist, script>>

DeliverStep == /\ Deliver
               /\ pc' = Append(pc, 1)
               /\ UNCHANGED <<hist, script>>

EndStep == /\ EmitEnd
           /\ UNCHANGED <<hist, script, pc>>

Next == \/ \E o \in Ops : Driver(o)
        \/ ScriptStep \/ ScriptDone \/ DeliverStep \/ EndStep

Spec == Init /\ [][Next]_vars

Terminal == stack = <<>> /\ Len(hist) = H

ExportInv ==
  (Export /\ Terminal) =>
     CSVWrite("%1$s", <<ToJson([hist |-> hist, script |-> script, ndeliv |-> Len(log)])>>,
              IOEnv.CASE_FILE)

(* action properties *)
OffExact ==
  [][\A n \in Names, c \in Cbs :
       (stack' = stack /\ nextId' = nextId /\ subs'[n] # subs[n] /\ fired' = fired) =>
          \/ subs'[n] = <<>>
          \/ \E d \in Cbs : subs'[n] = SelectSeq(subs[n], LAMBDA x : x.cb # d)]_vars

SnapshotStable ==
  [][\A f \in 1..Len(stack) :
       (f <= Len(stack') /\ stack[f].k = "emit" /\ stack'[f].k = "emit"
          /\ stack'[f].eid = stack[f].eid) => stack'[f].snap = stack[f].snap]_vars

StackBound == Len(stack) <= 2 * (MaxDepth + 2)
=============================================================================
