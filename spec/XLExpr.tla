------------------------------- MODULE XLExpr -------------------------------
(***************************************************************************)
(* Layer 3: surface syntax of expressions (C04).                           *)
(*  - the precedence levels exactly as the property words them             *)
(*  - renderings of a tree as token sequences: Min (only the parentheses   *)
(*    the precedence rules require), Full (every compound operand          *)
(*    parenthesised), Red (Min plus redundant parentheses)                 *)
(*  - an explicit shift-reduce machine (what a yacc precedence table does) *)
(*    so that TLC can check that the operational and the declarative       *)
(*    reading agree: Parse(rendering(t)) = t.                              *)
(* Trees are the node records of XLEval without "paren" nodes; leaves are  *)
(* any non-operator nodes.  Tokens are strings; the i-th leaf (left to     *)
(* right) is the token "L<i>".                                             *)
(***************************************************************************)
EXTENDS Integers, Sequences, TLC

CmpOpsX == {"=", "<>", "<", ">", "<=", ">="}
AddOps == {"+", "-"}
MulOps == {"*", "/"}

(* levels: higher binds tighter *)
Level(op) == IF op \in CmpOpsX THEN 1
             ELSE IF op = "&" THEN 2
             ELSE IF op \in AddOps THEN 3
             ELSE 4
IsArith(op) == op \in AddOps \cup MulOps
IsLeaf(n) == n.k \notin {"bin", "neg"}

(* does child c need parentheses under a binary operator op on side s?     *)
NeedParens(c, op, s) ==
  IF c.k # "bin" THEN FALSE                                  \* leaf or unary minus
  ELSE IF (c.op = "&" /\ IsArith(op)) \/ (IsArith(c.op) /\ op = "&") THEN TRUE   \* & vs + - * / : not ranked
  ELSE IF Level(c.op) < Level(op) THEN TRUE
  ELSE IF Level(c.op) > Level(op) THEN FALSE
  ELSE s = "r"                                                \* equal level: left to right

LeafTok(i) == "L" \o ToString(i)

RECURSIVE NLeaves(_)
NLeaves(n) == IF n.k = "bin" THEN NLeaves(n.l) + NLeaves(n.r)
              ELSE IF n.k = "neg" THEN NLeaves(n.e) ELSE 1

Par(toks) == <<"(">> \o toks \o <<")">>

(* mode: "min", "full", "red"; base: number of leaves to the left *)
RECURSIVE Render(_, _, _)
Render(n, mode, base) ==
  IF n.k = "bin"
  THEN LET lt == Render(n.l, mode, base)
           rt == Render(n.r, mode, base + NLeaves(n.l))
           lp == IF mode = "full" THEN ~IsLeaf(n.l) ELSE NeedParens(n.l, n.op, "l")
           rp == IF mode = "full" THEN ~IsLeaf(n.r) ELSE NeedParens(n.r, n.op, "r")
       IN (IF lp THEN Par(lt) ELSE lt) \o <<n.op>> \o (IF rp THEN Par(rt) ELSE rt)
  ELSE IF n.k = "neg"
  THEN LET et == Render(n.e, mode, base)
           ep == IF mode = "full" THEN ~IsLeaf(n.e) ELSE n.e.k = "bin"
       IN <<"-">> \o (IF ep THEN Par(et) ELSE et)
  ELSE IF mode = "red" THEN Par(<<LeafTok(base + 1)>>) ELSE <<LeafTok(base + 1)>>

Min(t) == Render(t, "min", 0)
Full(t) == Render(t, "full", 0)
Red(t) == Par(Par(Render(t, "red", 0)))

RECURSIVE LeafSeq(_)
LeafSeq(n) == IF n.k = "bin" THEN LeafSeq(n.l) \o LeafSeq(n.r)
              ELSE IF n.k = "neg" THEN LeafSeq(n.e) ELSE <<n>>

(***************************************************************************)
(* The shift-reduce machine.  Stack items: [k |-> "t", t |-> tree],        *)
(* [k |-> "op", op |-> o] (binary operator), [k |-> "neg"] (prefix minus), *)
(* [k |-> "("].  Leaves are looked up by position in leafs.                *)
(***************************************************************************)
IsLeafTok(s) == s \notin (CmpOpsX \cup AddOps \cup MulOps \cup {"&", "(", ")"})

MTop(st) == st[Len(st)]
MPop(st, k) == SubSeq(st, 1, Len(st) - k)
TopIs(st, kind) == IF st = <<>> THEN FALSE ELSE MTop(st).k = kind
(* the token at pos is in prefix position iff the stack does not end in a tree *)
Prefix(st) == ~TopIs(st, "t")

(* can the machine reduce now, given lookahead la ("$" at the end)?        *)
CanReduceNeg(st) == Len(st) >= 2 /\ TopIs(st, "t") /\ st[Len(st) - 1].k = "neg"
CanReduceBin(st, la) ==
  /\ Len(st) >= 3 /\ TopIs(st, "t") /\ st[Len(st) - 1].k = "op" /\ st[Len(st) - 2].k = "t"
  /\ (la \in {"$", ")"} \/ Level(st[Len(st) - 1].op) >= Level(la))     \* left-associative
CanReduceParen(st) ==
  Len(st) >= 3 /\ TopIs(st, ")") /\ st[Len(st) - 1].k = "t" /\ st[Len(st) - 2].k = "("

ReduceNeg(st) == Append(MPop(st, 2), [k |-> "t", t |-> [k |-> "neg", e |-> MTop(st).t]])
ReduceBin(st) == Append(MPop(st, 3), [k |-> "t", t |-> [k |-> "bin", op |-> st[Len(st) - 1].op,
                                                         l |-> st[Len(st) - 2].t, r |-> MTop(st).t]])
ReduceParen(st) == Append(MPop(st, 3), st[Len(st) - 1])

(* one step of the machine: [st, pos, done, ok] *)
MStep(m, toks, leafs) ==
  LET st == m.st
      la == IF m.pos <= Len(toks) THEN toks[m.pos] ELSE "$"
  IN IF CanReduceParen(st) THEN [m EXCEPT !.st = ReduceParen(st)]
     ELSE IF CanReduceNeg(st) THEN [m EXCEPT !.st = ReduceNeg(st)]        \* unary minus binds tightest
     ELSE IF CanReduceBin(st, la) THEN [m EXCEPT !.st = ReduceBin(st)]
     ELSE IF la = "$"
          THEN [m EXCEPT !.done = TRUE, !.ok = (Len(st) = 1 /\ TopIs(st, "t"))]
     ELSE IF IsLeafTok(la)
          THEN [m EXCEPT !.st = Append(st, [k |-> "t", t |-> leafs[m.nleaf + 1]]), !.pos = @ + 1, !.nleaf = @ + 1]
     ELSE IF la = "-" /\ Prefix(st)
          THEN [m EXCEPT !.st = Append(st, [k |-> "neg"]), !.pos = @ + 1]
     ELSE IF la \in {"(", ")"}
          THEN [m EXCEPT !.st = Append(st, [k |-> la]), !.pos = @ + 1]
     ELSE [m EXCEPT !.st = Append(st, [k |-> "op", op |-> la]), !.pos = @ + 1]

MInit == [st |-> <<>>, pos |-> 1, nleaf |-> 0, done |-> FALSE, ok |-> FALSE]

RECURSIVE MRun(_, _, _, _)
MRun(m, toks, leafs, fuel) == IF m.done \/ fuel = 0 THEN m ELSE MRun(MStep(m, toks, leafs), toks, leafs, fuel - 1)

(* functional form, used by the renderer service *)
Parse(toks, leafs) == LET m == MRun(MInit, toks, leafs, 6 * Len(toks) + 10)
                      IN IF m.done /\ m.ok THEN MTop(m.st).t ELSE [k |-> "parse_error"]
=============================================================================
