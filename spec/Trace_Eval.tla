------------------------------ MODULE Trace_Eval ------------------------------
(* Validates recorded evaluations of formula trees on the real parser against *)
(* XLEval.  Observation:                                                      *)
(*   [id, ast, env, out |-> [res, err, ...], events, calls, checks]           *)
(* checks is the list of clauses the generator asks for:                      *)
(*   "value"   the outcome matches the expectation for the tree               *)
(*   "events"  the recorded public events are exactly the expected sequence   *)
(*   "calls"   custom functions were called exactly once per call site, with  *)
(*             the evaluated arguments in order                               *)
(* Used by C04, C05, C08, C09, C10 (each with its own generators).             *)
EXTENDS TraceKit, XLEval
CONSTANT OpenDevs

RECURSIVE ArgMatches(_, _)
ArgMatches(x, y) ==
  IF IsUnspec(x) THEN TRUE
  ELSE IF IsArr(x) THEN y.t = "arr" /\ Len(y.a) = Len(x.a) /\ \A i \in 1..Len(x.a) : ArgMatches(x.a[i], y.a[i])
  ELSE SameValue(x, y)

EventMatches(x, y) ==
  /\ y.k = x.k
  /\ CASE x.k = "cell" -> y.c = x.c
       [] x.k = "range" -> y.s = x.s /\ y.e = x.e
       [] x.k = "var" -> y.name = x.name
       [] x.k = "fn" -> /\ y.name = x.name
                        /\ Len(y.args) = Len(x.args)
                        /\ \A i \in 1..Len(x.args) : ArgMatches(x.args[i], y.args[i])

(* exact sequence; if an operation with an unspecified outcome occurred and  *)
(* the formula ended in an error, a prefix of the expected sequence           *)
EventsOK(o) == LET r == Ev(o.ast, o.env)
                   pe == Pub(r.ev) IN
  /\ Len(o.events) <= Len(pe)
  /\ \A i \in 1..Len(o.events) : EventMatches(pe[i], o.events[i])
  /\ (Len(o.events) = Len(pe) \/ (r.may /\ o.out.err # ""))

CallsOK(o) ==
  LET r == Ev(o.ast, o.env)
      cust == CustomCalls(r.ev, o.env)
  IN /\ Len(o.calls) <= Len(cust)
     /\ (Len(o.calls) = Len(cust) \/ (r.may /\ o.out.err # ""))
     /\ \A i \in 1..Len(o.calls) :
           /\ o.calls[i].name = cust[i].name
           /\ Len(o.calls[i].args) = Len(cust[i].args)
           /\ \A j \in 1..Len(cust[i].args) : ArgMatches(cust[i].args[j], o.calls[i].args[j])

ValueOK(o) == OutcomeMatchesX(TopExpect(o.ast, o.env), o.out)

Has(o, c) == \E i \in 1..Len(o.checks) : o.checks[i] = c

Failing(o) ==
  (IF Has(o, "value") /\ ~ValueOK(o) THEN <<"value">> ELSE <<>>)
  \o (IF Has(o, "events") /\ ~EventsOK(o) THEN <<"events">> ELSE <<>>)
  \o (IF Has(o, "calls") /\ ~CallsOK(o) THEN <<"calls">> ELSE <<>>)

DevHolds(d, o) == FALSE

Verdict(o) == LET f == Failing(o) IN
  IF f = <<>> THEN <<"ok">>
  ELSE LET ds == {d \in OpenDevs : DevHolds(d, o)}
       IN IF ds # {} THEN <<"dev", CHOOSE d \in ds : TRUE>> ELSE <<"bad">> \o f

Inv == PrintT(<<"V", O.id>> \o Verdict(O))
=============================================================================
