------------------------------- MODULE XLCell -------------------------------
(***************************************************************************)
(* Cell labels (C19, used by C10): bijective base-26 column letters,       *)
(* 1-based row labels, $ markers.  Labels are sequences of code points.    *)
(***************************************************************************)
EXTENDS XLValue

RECURSIVE ColIndexAcc(_, _)
ColIndexAcc(s, acc) == IF s = <<>> THEN acc
                       ELSE ColIndexAcc(Tail(s), acc * 26 + (UpperC(Head(s)) - 64))
ColIndex(letters) == ColIndexAcc(letters, 0) - 1          \* "A" -> 0, "Z" -> 25, "AA" -> 26

RECURSIVE ColLabel(_)
ColLabel(i) == IF i < 26 THEN <<65 + i>>                    \* i >= 0
               ELSE Append(ColLabel(i \div 26 - 1), 65 + (i % 26))

RowIndex(digits) == DigitsVal(digits) - 1
RowLabel(i) == NatDigits(i + 1)

AllLetters(s) == s # <<>> /\ \A k \in 1..Len(s) : IsLetterC(s[k])

(* order on column labels: shorter first, then alphabetical                *)
RECURSIVE LexLt(_, _)
LexLt(s, u) == IF s = <<>> \/ u = <<>> THEN FALSE
               ELSE IF s[1] # u[1] THEN s[1] < u[1] ELSE LexLt(Tail(s), Tail(u))
LabelLt(s, u) == Len(s) < Len(u) \/ (Len(s) = Len(u) /\ LexLt(s, u))

(* Shape of a written label: [$]letters[$]digits                           *)
Shape(s) ==
  LET cabs == s # <<>> /\ s[1] = 36
      r1 == IF cabs THEN Tail(s) ELSE s
      nl == IF \E k \in 1..Len(r1) : ~IsLetterC(r1[k])
            THEN (CHOOSE k \in 1..Len(r1) : ~IsLetterC(r1[k]) /\ \A j \in 1..(k - 1) : IsLetterC(r1[j])) - 1
            ELSE Len(r1)
      letters == SubSeq(r1, 1, nl)
      r2 == SubSeq(r1, nl + 1, Len(r1))
      rabs == r2 # <<>> /\ r2[1] = 36
      digits == IF rabs THEN Tail(r2) ELSE r2
  IN [shaped |-> letters # <<>> /\ AllDigits(digits),
      cabs |-> cabs, rabs |-> rabs, letters |-> letters, digits |-> digits]

(* a cell label in the sense of C19: positive row number, no leading zero  *)
IsLabel(s) == LET p == Shape(s) IN p.shaped /\ p.digits[1] # 48
(* label-shaped but with a zero / zero-padded row: the statement does not  *)
(* say whether that is a label, so nothing is required of it               *)
LabelUnspecified(s) == LET p == Shape(s) IN p.shaped /\ p.digits[1] = 48

Recompose(p) == (IF p.cabs THEN <<36>> ELSE <<>>) \o UpperS(p.letters)
                  \o (IF p.rabs THEN <<36>> ELSE <<>>) \o p.digits
=============================================================================
