------------------------------ MODULE XLParser ------------------------------
(***************************************************************************)
(* Layer 4: parser objects and their bindings.  Each parser owns its       *)
(* variables, custom functions and listener behaviour; an evaluation is a  *)
(* function of the formula and of the bindings of the parser it runs on,   *)
(* and of nothing else (C02, C03, C09).                                    *)
(***************************************************************************)
EXTENDS XLEval, TLC

CONSTANT Parsers

VARIABLE st        \* [Parsers -> [vars, funcs, cellsets, rangesets, varsets, fnsets]]

Fresh == [vars |-> ("TRUE" :> Bool(TRUE)) @@ ("FALSE" :> Bool(FALSE)) @@ ("NULL" :> Blank),
          funcs |-> <<>>, cellsets |-> <<>>, rangesets |-> <<>>, varsets |-> <<>>, fnsets |-> <<>>]

PInit == st = [p \in Parsers |-> Fresh]

(* f with x mapped to y (adds x to the domain if needed) *)
Upd(f, x, y) == [z \in (DOMAIN f) \cup {x} |-> IF z = x THEN y ELSE f[z]]

SetVariable(p, name, v) == st' = [st EXCEPT ![p].vars = Upd(@, name, v)]
SetFunction(p, name, c) == st' = [st EXCEPT ![p].funcs = Upd(@, name, c)]
SetListeners(p, kind, sets) ==
  st' = CASE kind = "cell" -> [st EXCEPT ![p].cellsets = sets]
          [] kind = "range" -> [st EXCEPT ![p].rangesets = sets]
          [] kind = "var" -> [st EXCEPT ![p].varsets = sets]
          [] kind = "fn" -> [st EXCEPT ![p].fnsets = sets]
          [] kind = "raises" -> [st EXCEPT ![p] = [x \in (DOMAIN @) \cup {"raises"} |-> IF x = "raises" THEN sets ELSE @[x]]]

EnvOf(p) == st[p]
(* evaluation does not change any binding *)
Outcome(p, ast) == TopExpect(ast, EnvOf(p))
=============================================================================
