SPECIFICATION Spec
CONSTANTS
  MaxLen = 4
INVARIANT PredLaws
INVARIANT JunctionLaws
INVARIANT IfLaws
INVARIANT Determined
INVARIANT ExportInv
CHECK_DEADLOCK FALSE
