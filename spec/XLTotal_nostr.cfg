SPECIFICATION Spec
CONSTANTS
  CanonResult = TRUE
  GuardStr = FALSE
INVARIANT Total
CHECK_DEADLOCK FALSE
