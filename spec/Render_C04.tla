------------------------------ MODULE Render_C04 ------------------------------
(* Rendering service: for trees generated outside TLC (random deep trees) the  *)
(* token renderings Min/Full/Red are still computed by the specification, so   *)
(* the driver needs no knowledge of precedence.  Also checks the round trip.   *)
EXTENDS TraceKit, XLExpr, CSV

Out == [id |-> O.id, min |-> Min(O.ast), full |-> Full(O.ast), red |-> Red(O.ast),
        rt |-> Parse(Min(O.ast), LeafSeq(O.ast)) = O.ast /\ Parse(Full(O.ast), LeafSeq(O.ast)) = O.ast]
Inv == CSVWrite("%1$s", <<ToJson(Out)>>, IOEnv.CASE_FILE)
=============================================================================
