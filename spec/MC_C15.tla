------------------------------- MODULE MC_C15 -------------------------------
(* C15 on the specification: the string algebra of XLText/XLFuncs over every *)
(* string of length <= MaxLen over a 6-symbol alphabet (letters of both      *)
(* cases, space, TAB, an accented letter, a digit), all counts -1..5, all    *)
(* SUBSTITUTE (old, new, k).  The three identities, the relations being      *)
(* satisfiable and closed under idempotent witnesses, and the SUBSTITUTE     *)
(* laws are checked; every call is exported for replay.                      *)
EXTENDS XLFuncs, Json, IOUtils, CSV

CONSTANT MaxLen
Alphabet == <<97, 66, 32, 9, 233, 49>>
Counts == <<-1, 0, 1, 2, 3, 5>>
Olds == << <<97>>, <<32>>, <<97, 66>>, <<66, 32>>, <<49>> >>
News == << <<>>, <<120>>, <<121, 122>>, <<97>> >>

VARIABLES s, fin, f, p1, p2, p3
vars == <<s, fin, f, p1, p2, p3>>
Init == s = <<>> /\ fin = FALSE /\ f = "" /\ p1 = 0 /\ p2 = 0 /\ p3 = 0
Fns == {"LEFT", "RIGHT", "MID", "LEN", "SUBSTITUTE", "SUBSTITUTEK", "UPPER", "LOWER", "PROPER", "TRIM", "CLEAN"}
Next ==
  \/ /\ ~fin /\ Len(s) < MaxLen /\ \E i \in 1..Len(Alphabet) : s' = Append(s, Alphabet[i])
     /\ UNCHANGED <<fin, f, p1, p2, p3>>
  \/ /\ ~fin /\ fin' = TRUE /\ f' \in Fns /\ UNCHANGED <<s, p1, p2, p3>>
  \/ /\ fin /\ p1 = 0 /\ f \in {"LEFT", "RIGHT", "MID", "SUBSTITUTE", "SUBSTITUTEK"}
     /\ p1' \in 1..(IF f \in {"SUBSTITUTE", "SUBSTITUTEK"} THEN Len(Olds) ELSE Len(Counts)) /\ UNCHANGED <<s, fin, f, p2, p3>>
  \/ /\ fin /\ p1 # 0 /\ p2 = 0 /\ f \in {"MID", "SUBSTITUTE", "SUBSTITUTEK"}
     /\ p2' \in 1..(IF f = "MID" THEN Len(Counts) ELSE Len(News)) /\ UNCHANGED <<s, fin, f, p1, p3>>
  \/ /\ fin /\ p2 # 0 /\ p3 = 0 /\ f = "SUBSTITUTEK"
     /\ p3' \in 1..3 /\ UNCHANGED <<s, fin, f, p1, p2>>
Spec == Init /\ [][Next]_vars

Complete == fin /\ CASE f \in {"LEFT", "RIGHT"} -> p1 # 0
                     [] f \in {"MID", "SUBSTITUTE"} -> p2 # 0
                     [] f = "SUBSTITUTEK" -> p3 # 0
                     [] OTHER -> TRUE
FName == IF f = "SUBSTITUTEK" THEN "SUBSTITUTE" ELSE f
Args == CASE f \in {"LEFT", "RIGHT"} -> <<Txt(s), IntV(Counts[p1])>>
          [] f = "MID" -> <<Txt(s), IntV(Counts[p1]), IntV(Counts[p2])>>
          [] f = "SUBSTITUTE" -> <<Txt(s), Txt(Olds[p1]), Txt(News[p2])>>
          [] f = "SUBSTITUTEK" -> <<Txt(s), Txt(Olds[p1]), Txt(News[p2]), IntV(p3)>>
          [] OTHER -> <<Txt(s)>>
E == BuiltinExpect(FName, Args)

(* the three identities, on the specification *)
Identities == (fin /\ f = "LEN") =>
  /\ \A n \in 0..Len(s) : Left(s, n) \o Right(s, Len(s) - n) = s /\ Mid(s, 1, n) = Left(s, n)
  /\ \A n \in 0..Len(s) : Len(Left(s, n)) + Len(Right(s, Len(s) - n)) = Len(s)
  /\ Left(s, Len(s) + 3) = s /\ Right(s, Len(s) + 3) = s /\ Left(s, 0) = <<>> /\ Right(s, 0) = <<>>
(* reference witnesses: the relations are satisfiable and their witnesses idempotent *)
UpS(t) == [i \in 1..Len(t) |-> UpC(t[i])]
LowS(t) == [i \in 1..Len(t) |-> LowC(t[i])]
CleanS(t) == SelectSeq(t, LAMBDA c : c >= 32)
RECURSIVE Collapse(_)
Collapse(t) == IF Len(t) < 2 THEN t
               ELSE IF t[1] = 32 /\ t[2] = 32 THEN Collapse(Tail(t)) ELSE <<t[1]>> \o Collapse(Tail(t))
RECURSIVE LStrip(_)
LStrip(t) == IF t # <<>> /\ t[1] = 32 THEN LStrip(Tail(t)) ELSE t
RECURSIVE RStrip(_)
RStrip(t) == IF t # <<>> /\ t[Len(t)] = 32 THEN RStrip(SubSeq(t, 1, Len(t) - 1)) ELSE t
TrimS(t) == RStrip(LStrip(Collapse(t)))
Relations == (fin /\ f = "TRIM") =>
  /\ UpperRel(s, UpS(s)) /\ UpS(UpS(s)) = UpS(s) /\ LowerRel(s, LowS(s)) /\ LowS(LowS(s)) = LowS(s)
  /\ TrimRel(s, TrimS(s)) /\ TrimS(TrimS(s)) = TrimS(s)
  /\ CleanRel(s, CleanS(s)) /\ CleanS(CleanS(s)) = CleanS(s)
  /\ (9 \in {s[i] : i \in 1..Len(s)} => ~TrimRel(s, SelectSeq(TrimS(s), LAMBDA c : c # 9)))   \* deleting a TAB is not trimming
SubstLaws == (Complete /\ f \in {"SUBSTITUTE", "SUBSTITUTEK"} /\ E.k = "val") =>
  LET old == Olds[p1]
      occurs == \E i \in 1..Len(s) : StartsWith(SubSeq(s, i, Len(s)), old)
  IN /\ (~occurs => E.v = Txt(s))
     \* (removing every occurrence may leave a new one behind: "aaBB" without "aB" is "aB" - no law about what remains)
     /\ (f = "SUBSTITUTE" /\ News[p2] = <<>> => Len(E.v.s) <= Len(s))
ExportInv == Complete => CSVWrite("%1$s", <<ToJson([f |-> FName, args |-> Args])>>, IOEnv.CASE_FILE)
=============================================================================
