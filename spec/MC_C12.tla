------------------------------- MODULE MC_C12 -------------------------------
(* C12 on the specification: logical functions and type predicates of        *)
(* XLFuncs over enumerated argument tuples; the laws are checked by TLC and  *)
(* every call is exported for replay on the real parser.                     *)
EXTENDS XLFuncs, Json, IOUtils, CSV

CONSTANT MaxLen

TPool == <<Bool(TRUE), Bool(FALSE), IntV(0), IntV(1), Num(-5, 2), Blank,
           Arr(<<Bool(TRUE), IntV(0)>>), Arr(<<IntV(1), Arr(<<Bool(FALSE), Blank>>)>>)>>
KPool == <<IntV(7), Num(-5, 2), IntV(0), Txt(<<97, 98>>), Txt(<<>>), Txt(<<49, 50>>), Bool(TRUE), Bool(FALSE), Blank,
           Err("#N/A"), Err("#DIV/0!"), Err("#VALUE!"), Err("#REF!"), Err("#NAME?"), Err("#NUM!"), Err("#NULL!"),
           Err("#ERROR!"), Err("#GETTING_DATA"), IntV(8), Num(7, 2), IntV(-3)>>
CPool == <<Bool(TRUE), Bool(FALSE), IntV(0), IntV(2), Blank, Err("#N/A"), Err("#DIV/0!"), Err("#REF!")>>
VPool == <<IntV(10), Txt(<<120>>), IntV(30)>>

Junctions == {"AND", "OR", "XOR"}
Preds == {"ISNUMBER", "ISTEXT", "ISLOGICAL", "ISBLANK", "ISERROR", "ISERR", "ISNA", "ISNONTEXT", "ISEVEN", "ISODD", "NOT"}

VARIABLES f, args, done
vars == <<f, args, done>>
Fns == Junctions \cup Preds \cup {"IF", "IFS", "SWITCH"}
Init == f \in Fns /\ args = <<>> /\ done = FALSE

PoolFor(fn, pos) ==
  IF fn \in Junctions THEN TPool
  ELSE IF fn \in Preds THEN KPool
  ELSE IF fn = "IF" THEN (IF pos = 1 THEN CPool ELSE VPool)
  ELSE IF fn = "IFS" THEN (IF pos % 2 = 1 THEN CPool ELSE VPool)
  ELSE (IF pos = 1 THEN <<IntV(2), Txt(<<120>>)>> ELSE IF pos % 2 = 0 THEN <<IntV(2), IntV(3), Txt(<<120>>)>> ELSE VPool)
MaxArgs(fn) == IF fn \in Junctions THEN MaxLen ELSE IF fn \in Preds THEN 1 ELSE IF fn = "IF" THEN 3
               ELSE IF fn = "IFS" THEN 6 ELSE 6
CanStop(fn, n) == IF fn \in Junctions THEN n >= 1 ELSE IF fn \in Preds THEN n = 1 ELSE IF fn = "IF" THEN n = 3
                  ELSE IF fn = "IFS" THEN n >= 2 /\ n % 2 = 0 ELSE n >= 3

Next == \/ /\ ~done /\ Len(args) < MaxArgs(f)
           /\ \E i \in 1..Len(PoolFor(f, Len(args) + 1)) : args' = Append(args, PoolFor(f, Len(args) + 1)[i])
           /\ UNCHANGED <<f, done>>
        \/ /\ ~done /\ CanStop(f, Len(args)) /\ done' = TRUE /\ UNCHANGED <<f, args>>
Spec == Init /\ [][Next]_vars

E == BuiltinExpect(f, args)
T(fn, v) == BuiltinExpect(fn, <<v>>)

(* laws *)
PredLaws == (done /\ f \in Preds) =>
  LET v == args[1] IN
    /\ Cardinality({g \in {"ISNUMBER", "ISTEXT", "ISLOGICAL", "ISBLANK", "ISERROR"} : T(g, v) = ETruth(TRUE)}) = 1
    /\ (T("ISNONTEXT", v) = ETruth(TRUE)) = (T("ISTEXT", v) = ETruth(FALSE))
    /\ (T("ISERROR", v) = ETruth(TRUE)) = (T("ISERR", v) = ETruth(TRUE) \/ T("ISNA", v) = ETruth(TRUE))
    /\ v.t = "num" => (T("ISEVEN", v) = ETruth(TRUE)) = (T("ISODD", v) = ETruth(FALSE))
JunctionLaws == (done /\ f \in Junctions /\ E.k = "truth") =>
  LET xs == Flat(args)
      ts == [i \in 1..Len(xs) |-> Truth(xs[i])]
  IN /\ f = "AND" => E.b = (\A i \in 1..Len(ts) : ts[i])
     /\ f = "OR" => E.b = (\E i \in 1..Len(ts) : ts[i])
     /\ f = "XOR" => E.b = (Cardinality({i \in 1..Len(ts) : ts[i]}) % 2 = 1)
     (* De Morgan on the model: NOT(AND(x)) = OR(NOT x) for flat two-valued items *)
IfLaws == (done /\ f = "IF") =>
  /\ IsErr(args[1]) => E = EVal(args[1])
  /\ (TruthDefined(args[1]) /\ Truth(args[1])) => E = EVal(args[2])
  /\ (TruthDefined(args[1]) /\ ~Truth(args[1])) => E = EVal(args[3])
Determined == done => E.k \in {"truth", "val", "any"}
ExportInv == done => CSVWrite("%1$s", <<ToJson([f |-> f, args |-> args])>>, IOEnv.CASE_FILE)
=============================================================================
