------------------------------- MODULE MC_Date -------------------------------
(* C13/C14 on the specification: for every day number in Lo..Hi the civil     *)
(* date round-trips, dates are valid and consecutive days are consecutive     *)
(* dates; weekday numberings agree; EDATE laws on a sample of offsets.        *)
EXTENDS XLDateFn, TLC

CONSTANTS Lo, Hi
Block == 4096
VARIABLES blk, n
vars == <<blk, n>>
Init == blk \in 0..((Hi - Lo) \div Block) /\ n = Lo + blk * Block
Next == /\ n + 1 <= Hi /\ n + 1 < Lo + (blk + 1) * Block
        /\ n' = n + 1 /\ blk' = blk
Spec == Init /\ [][Next]_vars

C == CivilFromDayNumber(n)
RoundTrip == DayNumber(C.y, C.mo, C.d) = n
Valid == ValidCivil(C.y, C.mo, C.d) /\ C.y >= 1900 /\ C.y <= 9999
Successor == n + 1 <= LastDay =>
   LET D == CivilFromDayNumber(n + 1) IN
     \/ (D.y = C.y /\ D.mo = C.mo /\ D.d = C.d + 1)
     \/ (D.d = 1 /\ C.d = DaysInMonth(C.y, C.mo) /\ ((D.y = C.y /\ D.mo = C.mo + 1) \/ (D.y = C.y + 1 /\ D.mo = 1 /\ C.mo = 12)))
Weekdays == /\ Weekday(n, 3) \in 0..6 /\ Weekday(n, 2) = Weekday(n, 3) + 1
            /\ Weekday(n, 1) = (Weekday(n, 2) % 7) + 1
            /\ (n + 1 <= LastDay => Weekday(n + 1, 3) = (Weekday(n, 3) + 1) % 7)
            /\ (n = 43831 => Weekday(n, 3) = 2)                     \* 2020-01-01 was a Wednesday
EDateLaws == \A k \in {-25, -12, -1, 0, 1, 11, 12, 13, 1200} :
   LET e == EDate(C, k) IN
     e.ok => /\ ValidCivil(e.y, e.mo, e.d) /\ e.d <= C.d
             /\ (e.d < C.d => e.d = DaysInMonth(e.y, e.mo))
             /\ DifM([y |-> C.y, mo |-> C.mo, d |-> 1], [y |-> e.y, mo |-> e.mo, d |-> 1]) = k \/ k < 0
             /\ (k >= 0 => DifM(C, e) \in {k, k - 1})
DifLaws == \A j \in {1, 27, 31, 59, 365, 366, 1461, 40000} :
   n + j <= LastDay =>
     LET D == CivilFromDayNumber(n + j) IN
       /\ DifD(C, D) = j
       /\ DifY(C, D) = DifM(C, D) \div 12
       /\ DifYM(C, D) = DifM(C, D) % 12
       /\ DifM(C, D) >= 0
=============================================================================
