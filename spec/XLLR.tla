-------------------------------- MODULE XLLR --------------------------------
(***************************************************************************)
(* The LR automaton of the implementation, run by TLC.                     *)
(*                                                                         *)
(* LRTabGen is generated at check time from the action/goto tables of the  *)
(* live parser object (harness/lrtab.py): the tables ARE the implemented   *)
(* grammar with its conflict resolutions.  This module is the table        *)
(* interpreter (what ply.yacc.LRParser.parse does: defaulted states,       *)
(* shift, reduce, goto, accept) with one tree constructor per production,  *)
(* chosen by the shape of the production's right-hand side.                *)
(*                                                                         *)
(* Trees: [k|->"bin",op,l,r], [k|->"neg",e], [k|->"paren",e],              *)
(* [k|->"leaf",f] (f: which literal/reference form), [k|->"call",args],    *)
(* [k|->"arr",args].  Tokens are ply token type names.                     *)
(***************************************************************************)
EXTENDS LRTabGen, Sequences

OpOfTok(t) == CASE t = "PLUS" -> "+" [] t = "MINUS" -> "-" [] t = "MULT" -> "*" [] t = "DIV" -> "/"
                [] t = "AMP" -> "&" [] t = "EQUAL" -> "=" [] t = "NOTEQUAL" -> "<>" [] t = "LESS" -> "<"
                [] t = "GREATER" -> ">" [] t = "LESSEQ" -> "<=" [] t = "GREATEREQ" -> ">=" [] OTHER -> "?"
TokOfOp(o) == CASE o = "+" -> "PLUS" [] o = "-" -> "MINUS" [] o = "*" -> "MULT" [] o = "/" -> "DIV"
                [] o = "&" -> "AMP" [] o = "=" -> "EQUAL" [] o = "<>" -> "NOTEQUAL" [] o = "<" -> "LESS"
                [] o = ">" -> "GREATER" [] o = "<=" -> "LESSEQ" [] o = ">=" -> "GREATEREQ"

Tok(t) == [k |-> "tok", t |-> t]

(* the value a reduction leaves on the stack *)
Sem(kind, a) ==
  CASE kind = "pass" -> a[1]
    [] kind = "tokpass" -> a[1]
    [] kind = "bin" -> [k |-> "bin", op |-> OpOfTok(a[2].t), l |-> a[1], r |-> a[3]]
    [] kind = "neg" -> [k |-> "neg", e |-> a[2]]
    [] kind = "paren" -> [k |-> "paren", e |-> a[2]]
    [] kind = "leaf_n" -> [k |-> "leaf", f |-> "n"]
    [] kind = "leaf_d" -> [k |-> "leaf", f |-> "d"]
    [] kind = "leaf_f" -> [k |-> "leaf", f |-> "f"]
    [] kind = "leaf_p" -> [k |-> "leaf", f |-> "p"]
    [] kind = "leaf_c" -> [k |-> "leaf", f |-> "c"]
    [] kind = "leaf_s" -> [k |-> "leaf", f |-> "s"]
    [] kind = "leaf_e" -> [k |-> "leaf", f |-> "e"]
    [] kind = "leaf_v" -> [k |-> "leaf", f |-> "v"]
    [] kind = "leaf_r" -> [k |-> "leaf", f |-> "r"]
    [] kind = "leaf_g" -> [k |-> "leaf", f |-> "g"]
    [] kind = "call0" -> [k |-> "call", args |-> <<>>]
    [] kind = "call" -> [k |-> "call", args |-> a[3]]
    [] kind = "arr" -> [k |-> "arr", args |-> a[2]]
    [] kind = "seq1" -> <<a[1]>>
    [] kind = "seqapp" -> Append(a[1], a[3])
    [] OTHER -> [k |-> "other", kind |-> kind]

NoAct == 999999

(* ss: LR state stack; vs: value stack (one shorter than ss); la at toks[pos], "$end" after *)
RECURSIVE LRRun(_, _, _, _, _)
LRRun(ss, vs, toks, pos, fuel) ==
  IF fuel = 0 THEN [ok |-> FALSE, why |-> "fuel", pos |-> pos]
  ELSE
  LET s == ss[Len(ss)]
      la == IF pos <= Len(toks) THEN toks[pos] ELSE "$end"
      a == IF s \in LRDefStates THEN LRDef[s]
           ELSE IF la \in DOMAIN LRAct[s] THEN LRAct[s][la] ELSE NoAct
  IN IF a = NoAct THEN [ok |-> FALSE, why |-> "syntax", pos |-> pos]
     ELSE IF a > 0 THEN LRRun(Append(ss, a), Append(vs, Tok(la)), toks, pos + 1, fuel - 1)
     ELSE IF a = 0 THEN [ok |-> TRUE, t |-> vs[Len(vs)]]
     ELSE LET p == (-a) + 1
              n == LRPLen[p]
              args == SubSeq(vs, Len(vs) - n + 1, Len(vs))
              ss2 == SubSeq(ss, 1, Len(ss) - n)
              top == ss2[Len(ss2)]
              nt == LRPName[p]
          IN IF nt \notin DOMAIN LRGoto[top] THEN [ok |-> FALSE, why |-> "goto", pos |-> pos]
             ELSE LRRun(Append(ss2, LRGoto[top][nt]),
                        Append(SubSeq(vs, 1, Len(vs) - n), Sem(LRPKind[p], args)), toks, pos, fuel - 1)

LRParse(toks) == LRRun(<<0>>, <<>>, toks, 1, 12 * Len(toks) + 20)

(***************************************************************************)
(* The usual reading, declaratively: a tree is the reading of its own      *)
(* rendering iff no operand stands bare where the precedence rules of      *)
(* the statement would have required parentheses.                          *)
(***************************************************************************)
CmpOpsL == {"=", "<>", "<", ">", "<=", ">="}
ArithL == {"+", "-", "*", "/"}
LevelL(op) == IF op \in CmpOpsL THEN 1 ELSE IF op = "&" THEN 2 ELSE IF op \in {"+", "-"} THEN 3 ELSE 4

(* "yes": must be parenthesised, "no": must not need to be, "open": the statement does not say *)
Bare(c, op, side) ==
  IF c.k # "bin" THEN "no"
  ELSE IF (c.op = "&" /\ op \in ArithL) \/ (c.op \in ArithL /\ op = "&") THEN "open"   \* & against + - * / is not ranked
  ELSE IF LevelL(c.op) < LevelL(op) THEN "yes"
  ELSE IF LevelL(c.op) > LevelL(op) THEN "no"
  ELSE IF side = "r" THEN "yes" ELSE "no"

RECURSIVE Reading(_)
(* "ok": the tree is the usual reading of its rendering; "open": unspecified; "no": it is not *)
Worst(a, b) == IF a = "no" \/ b = "no" THEN "no" ELSE IF a = "open" \/ b = "open" THEN "open" ELSE "ok"
FromBare(x) == IF x = "yes" THEN "no" ELSE IF x = "open" THEN "open" ELSE "ok"
RECURSIVE ReadingSeq(_)
ReadingSeq(s) == IF s = <<>> THEN "ok" ELSE Worst(Reading(Head(s)), ReadingSeq(Tail(s)))
Reading(t) ==
  CASE t.k = "bin" -> Worst(Worst(FromBare(Bare(t.l, t.op, "l")), FromBare(Bare(t.r, t.op, "r"))),
                            Worst(Reading(t.l), Reading(t.r)))
    [] t.k = "neg" -> Worst(IF t.e.k = "bin" THEN "no" ELSE "ok", Reading(t.e))   \* unary minus binds tightest
    [] t.k = "paren" -> Reading(t.e)
    [] t.k \in {"call", "arr"} -> ReadingSeq(t.args)
    [] OTHER -> "ok"

LeafToks(f) == CASE f = "n" -> <<"NUMBER">> [] f = "d" -> <<"NUMBER", "DECIMAL", "NUMBER">>
                 [] f = "f" -> <<"DECIMAL", "NUMBER">> [] f = "p" -> <<"NUMBER", "PERCENT">>
                 [] f = "c" -> <<"NUMBER", "CARET", "NUMBER">> [] f = "s" -> <<"STRING">>
                 [] f = "v" -> <<"VARIABLE">> [] f = "r" -> <<"RELATIVE_CELL">>
                 [] f = "g" -> <<"RELATIVE_CELL", "COLON", "RELATIVE_CELL">>
                 [] f = "e" -> <<"XLERROR">>

RECURSIVE TokensOf(_, _)
RECURSIVE JoinToks(_, _)
JoinToks(s, sep) == IF Len(s) = 1 THEN TokensOf(s[1], sep) ELSE TokensOf(s[1], sep) \o <<sep>> \o JoinToks(Tail(s), sep)
TokensOf(t, sep) ==
  CASE t.k = "bin" -> TokensOf(t.l, sep) \o <<TokOfOp(t.op)>> \o TokensOf(t.r, sep)
    [] t.k = "neg" -> <<"MINUS">> \o TokensOf(t.e, sep)
    [] t.k = "paren" -> <<"LPAREN">> \o TokensOf(t.e, sep) \o <<"RPAREN">>
    [] t.k = "leaf" -> LeafToks(t.f)
    [] t.k = "call" -> <<"FUNCTION", "LPAREN">> \o (IF t.args = <<>> THEN <<>> ELSE JoinToks(t.args, sep)) \o <<"RPAREN">>
    [] t.k = "arr" -> <<"LBRACKET">> \o JoinToks(t.args, sep) \o <<"RBRACKET">>
=============================================================================
