------------------------------ MODULE Trace_C05 ------------------------------
(* C05: lexical conventions.  One observation = one formula tree evaluated by  *)
(* the real parser in several spellings (separator styles, whitespace vectors, *)
(* letter case of references): [id, kind, ast, env, must, vars |-> <<[out,     *)
(* events, calls], ...>>].  All spellings must give the same outcome, events   *)
(* and custom-function calls; and if the first is accepted (no error) - or     *)
(* must = TRUE: acceptance is not optional for this kind - they must be the    *)
(* ones XLEval gives the tree (literal values, string contents, one argument   *)
(* per slot with blanks for omitted ones, array shapes).                       *)
EXTENDS TraceKit, XLEval
CONSTANT OpenDevs

RECURSIVE ArgMatches(_, _)
ArgMatches(x, y) ==
  IF IsUnspec(x) THEN TRUE
  ELSE IF IsArr(x) THEN y.t = "arr" /\ Len(y.a) = Len(x.a) /\ \A i \in 1..Len(x.a) : ArgMatches(x.a[i], y.a[i])
  ELSE SameValue(x, y)
EventMatches(x, y) ==
  /\ y.k = x.k
  /\ CASE x.k = "cell" -> y.c = x.c
       [] x.k = "range" -> y.s = x.s /\ y.e = x.e
       [] x.k = "var" -> y.name = x.name
       [] x.k = "fn" -> /\ y.name = x.name /\ Len(y.args) = Len(x.args)
                        /\ \A i \in 1..Len(x.args) : ArgMatches(x.args[i], y.args[i])

Same(o) == \A a \in 2..Len(o.vars) :
   /\ o.vars[a].out.res = o.vars[1].out.res /\ o.vars[a].out.err = o.vars[1].out.err
   /\ o.vars[a].events = o.vars[1].events /\ o.vars[a].calls = o.vars[1].calls

Spec1OK(o) ==
  LET r == Ev(o.ast, o.env)
      v == o.vars[1]
      cust == CustomCalls(r.ev, o.env)
  IN <<OutcomeMatchesX(TopExpect(o.ast, o.env), v.out),
       r.may \/ (Len(v.events) = Len(Pub(r.ev)) /\ \A i \in 1..Len(Pub(r.ev)) : EventMatches(Pub(r.ev)[i], v.events[i])),
       r.may \/ (Len(v.calls) = Len(cust) /\ \A i \in 1..Len(cust) :
                    /\ v.calls[i].name = cust[i].name /\ Len(v.calls[i].args) = Len(cust[i].args)
                    /\ \A j \in 1..Len(cust[i].args) : ArgMatches(cust[i].args[j], v.calls[i].args[j]))>>

(* a numeric literal is exactly the number it spells: the result prints like  *)
(* the literal read by a correctly rounded decimal reader (field want)         *)
Exact(o) == IF "want" \in DOMAIN o THEN \A a \in 1..Len(o.vars) : o.vars[a].repr = o.want ELSE TRUE

Failing(o) ==
  (IF ~Same(o) THEN <<"spellings_differ">> ELSE <<>>)
  \o (IF ~Exact(o) THEN <<"literal_not_exact">> ELSE <<>>)
  \o (IF o.must \/ o.vars[1].out.err = ""
      THEN LET s == Spec1OK(o) IN
           (IF ~s[1] /\ ~("novalue" \in DOMAIN o /\ o.novalue) THEN <<"value">> ELSE <<>>) \o (IF ~s[2] THEN <<"events">> ELSE <<>>)
              \o (IF ~s[3] THEN <<"arguments">> ELSE <<>>)
      ELSE <<>>)

(* Known finding DevBackslashQuote: a quoted literal whose content ends in a    *)
(* backslash, followed by another literal with the same delimiter, swallows    *)
(* its closing quote; the formula is rejected with #ERROR!.                    *)
EndsBs(s) == s # <<>> /\ s[Len(s)] = 92
StrItems(n) == IF n.k = "call" THEN n.args ELSE IF n.k = "arr" THEN n.items ELSE <<>>
BsFollowed(n) ==
  \/ n.k = "bin" /\ n.l.k = "str" /\ EndsBs(n.l.s) /\ n.r.k = "str" /\ n.r.q = n.l.q
  \/ LET xs == StrItems(n) IN
       \E i, j \in 1..Len(xs) : i < j /\ xs[i].k = "str" /\ EndsBs(xs[i].s) /\ xs[j].k = "str" /\ xs[j].q = xs[i].q
DevBackslashQuote(o) ==
  /\ BsFollowed(o.ast)
  /\ \A a \in 1..Len(o.vars) :
        \/ (o.vars[a].out.err = "#ERROR!" /\ o.vars[a].out.res.t = "blank")
        \/ OutcomeMatchesX(TopExpect(o.ast, o.env), o.vars[a].out)    \* (a backslash separator keeps the quotes apart)
DevHolds(d, o) == CASE d = "DevBackslashQuote" -> DevBackslashQuote(o) [] OTHER -> FALSE

Verdict(o) == LET f == Failing(o) IN
  IF f = <<>> THEN <<"ok">>
  ELSE LET ds == {d \in OpenDevs : DevHolds(d, o)}
       IN IF ds # {} THEN <<"dev", CHOOSE d \in ds : TRUE>> ELSE <<"bad">> \o f
Inv == PrintT(<<"V", O.id>> \o Verdict(O))
=============================================================================
