------------------------------ MODULE Trace_C15 ------------------------------
(* C15, the laws that relate two evaluations: [id, f, s, once, twice] where     *)
(* once = f(s) and twice = f(f(s)) as the real parser evaluated them.  once     *)
(* must stand in the relation XLText gives for f (only letter case changed /    *)
(* only surplus spaces removed / only control characters removed), and f must   *)
(* be idempotent: twice = once.                                                 *)
EXTENDS TraceKit, XLFuncs
CONSTANT OpenDevs
Failing(o) ==
  (IF ~MatchesF(TextExpect(o.f, <<Txt(o.s)>>), o.once) THEN <<"changes_more_than_allowed">> ELSE <<>>)
  \o (IF o.once # o.twice THEN <<"not_idempotent">> ELSE <<>>)
Verdict(o) == LET f == Failing(o) IN IF f = <<>> THEN <<"ok">> ELSE <<"bad">> \o f
Inv == PrintT(<<"V", O.id>> \o Verdict(O))
=============================================================================
