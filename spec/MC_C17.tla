------------------------------- MODULE MC_C17 -------------------------------
(* C17 on the specification: the rounding relations are satisfiable by the   *)
(* textbook witnesses, MOD/QUOTIENT decompose the dividend, radix digits and *)
(* Roman numerals round-trip through BigNat / RomanValue; cases exported.    *)
EXTENDS XLMath, TLC, Json, IOUtils, CSV

CONSTANT NMax      \* sweep 0..NMax for radix / roman / factorial laws

Dens == <<1, 2, 4, 5, 8, 10, 100>>
Digs == <<-3, -2, -1, 0, 1, 2, 3>>
Sigs == <<Q(1, 1), Q(2, 1), Q(1, 2), Q(1, 4), Q(5, 1), Q(-1, 1), Q(-2, 1), Q(-1, 2), Q(-5, 1), Q(3, 10)>>

RECURSIVE BaseDigits(_, _)
BaseDigits(n, r) == IF n < r THEN <<IF n < 10 THEN 48 + n ELSE 55 + n>>
                    ELSE Append(BaseDigits(n \div r, r), IF n % r < 10 THEN 48 + (n % r) ELSE 55 + (n % r))
RomanClassic(n) ==
  LET th == << <<>>, <<77>>, <<77, 77>>, <<77, 77, 77>> >>
      hu == << <<>>, <<67>>, <<67, 67>>, <<67, 67, 67>>, <<67, 68>>, <<68>>, <<68, 67>>, <<68, 67, 67>>, <<68, 67, 67, 67>>, <<67, 77>> >>
      te == << <<>>, <<88>>, <<88, 88>>, <<88, 88, 88>>, <<88, 76>>, <<76>>, <<76, 88>>, <<76, 88, 88>>, <<76, 88, 88, 88>>, <<88, 67>> >>
      on == << <<>>, <<73>>, <<73, 73>>, <<73, 73, 73>>, <<73, 86>>, <<86>>, <<86, 73>>, <<86, 73, 73>>, <<86, 73, 73, 73>>, <<73, 88>> >>
  IN th[(n \div 1000) + 1] \o hu[((n \div 100) % 10) + 1] \o te[((n \div 10) % 10) + 1] \o on[(n % 10) + 1]

VARIABLES k, di, j
vars == <<k, di, j>>
Init == k \in -40..NMax /\ di = 0 /\ j = 0
Next == \/ di = 0 /\ di' \in 1..Len(Dens) /\ UNCHANGED <<k, j>>
        \/ di # 0 /\ j = 0 /\ j' \in 1..Len(Sigs) /\ UNCHANGED <<k, di>>
Spec == Init /\ [][Next]_vars

X == Q(k, Dens[IF di = 0 THEN 1 ELSE di])
(* textbook witnesses *)
RoundW(x, d) == QMul(QI(QFloor(QAdd(QDiv(x, Unit(d)), QHalf))), Unit(d))
UpW(x, d) == LET q == QDiv(QAbs(x), Unit(d))
                 c == IF q.d = 1 THEN q.n ELSE QFloor(q) + 1
             IN QMul(QI(SgnI(x.n) * c), Unit(d))
DownW(x, d) == QMul(QI(SgnI(x.n) * QFloor(QDiv(QAbs(x), Unit(d)))), Unit(d))

RoundingSatisfiable == di # 0 =>
  \A d \in {-3, -1, 0, 1, 2, 3} :
     RoundSafe(X, d) => /\ RoundRel(X, d, RoundW(X, d)) /\ RoundUpRel(X, d, UpW(X, d)) /\ RoundDownRel(X, d, DownW(X, d))
                        /\ QLe(QAbs(DownW(X, d)), QAbs(RoundW(X, d))) /\ QLe(QAbs(RoundW(X, d)), QAbs(UpW(X, d)))
AdjacentSatisfiable == j # 0 =>
  LET s == Sigs[j]
      up == QMul(QI(-QFloor(QNeg(QDiv(X, QAbs(s))))), QAbs(s))
      dn == QMul(QI(QFloor(QDiv(X, QAbs(s)))), QAbs(s))
  IN AdjacentRel(X, s, up, "up") /\ AdjacentRel(X, s, dn, "down") /\ QLe(dn, X) /\ QLe(X, up)
ModLaw == j # 0 =>
  LET d == Sigs[j]
      r == ModVal(X, d)
  IN /\ QEq(X, QAdd(QMul(d, QI(QFloor(QDiv(X, d)))), r))
     /\ (r.n = 0 \/ SgnI(r.n) = SgnI(d.n)) /\ QLt(QAbs(r), QAbs(d))
     /\ QLe(QAbs(QI(TruncQuot(X, d))), QAbs(QDiv(X, d)))
RadixLaw == (di = 0 /\ k >= 0) =>
  \A r \in {2, 3, 7, 10, 16, 35, 36} : /\ BOfRadix(BaseDigits(k, r), r) = BOfNat(k)
                                      /\ ValidDigits(BaseDigits(k, r), r)
RomanLaw == (di = 0 /\ k >= 1 /\ k <= 3999) => RomanValue(RomanClassic(k)) = k /\ ValidRoman(RomanClassic(k))
FactLaw == (di = 0 /\ k >= 1 /\ k <= 25) => BFact(k) = BMulAdd(BFact(k - 1), k, 0) /\ (k >= 2 => BFact2(k) = BMulAdd(BFact2(k - 2), k, 0))
BigNatLaw == (di = 0 /\ k >= 0) =>
  /\ BSub(BMulAdd(Two40, 1, k), BOfNat(k)) = Two40
  /\ BLt(BOfNat(k), Two39) /\ BOfDigits(NatDigits(k)) = BOfNat(k)
=============================================================================
