------------------------------- MODULE MC_C05 -------------------------------
(* C05 on the specification: lexical conventions.  Cases:                    *)
(*  "slots"   REC(...) with every present/absent pattern of up to 6 slots,   *)
(*            for each separator style                                       *)
(*  "lit"     every literal form over digit strings of length <= 3           *)
(*  "arr"     flat array literals with each separator; two-row literals      *)
(*  "layout"  whitespace vectors for the token boundaries of template        *)
(*            formulas                                                       *)
(* Laws checked here; every case is exported and replayed on the real parser.*)
EXTENDS XLEval, Json, IOUtils, CSV

CONSTANT MaxSlots, MaxLayout

N(lex) == [k |-> "num", s |-> lex]
Omit == [k |-> "omit"]
Seps == <<",", ";", "\\">>
Digit(i) == <<48 + i>>

Env == [vars |-> [va |-> IntV(3)], funcs |-> [REC |-> [mode |-> "const", v |-> IntV(7), i |-> 0]],
        cellsets |-> <<[key |-> <<65, 49>>, vals |-> <<IntV(5)>>]>>,
        rangesets |-> <<>>, varsets |-> <<>>, fnsets |-> <<>>]

VARIABLES kind, pat, aux
vars == <<kind, pat, aux>>

Init == kind \in {"slots", "lit", "arr", "layout"} /\ pat = <<>> /\ aux = 0

(* pat grows one element per step; aux # 0 marks a complete case *)
Next ==
  \/ /\ kind = "slots" /\ aux = 0 /\ Len(pat) < MaxSlots
     /\ pat' \in {Append(pat, b) : b \in {0, 1}} /\ UNCHANGED <<kind, aux>>
  \/ /\ kind = "slots" /\ aux = 0 /\ pat # <<>> /\ (Len(pat) >= 2 \/ pat[1] = 1)
     /\ aux' \in 1..3 /\ UNCHANGED <<kind, pat>>
  \/ /\ kind = "lit" /\ aux = 0 /\ Len(pat) < 3
     /\ pat' \in {Append(pat, d) : d \in {0, 1, 5, 9}} /\ UNCHANGED <<kind, aux>>
  \/ /\ kind = "lit" /\ aux = 0 /\ pat # <<>>
     /\ aux' \in 1..7 /\ UNCHANGED <<kind, pat>>
  \/ /\ kind = "arr" /\ aux = 0 /\ Len(pat) < 4
     /\ pat' \in {Append(pat, b) : b \in {1, 2}} /\ UNCHANGED <<kind, aux>>
  \/ /\ kind = "arr" /\ aux = 0 /\ pat # <<>>
     /\ aux' \in (IF Len(pat) >= 2 THEN 1..5 ELSE 1..3)    \* a one-element row is spelled like a flat array
     /\ UNCHANGED <<kind, pat>>
  \/ /\ kind = "layout" /\ aux = 0 /\ Len(pat) < MaxLayout
     /\ pat' \in {Append(pat, w) : w \in 0..4} /\ UNCHANGED <<kind, aux>>
  \/ /\ kind = "layout" /\ aux = 0 /\ Len(pat) = MaxLayout
     /\ aux' \in 1..4 /\ UNCHANGED <<kind, pat>>
Spec == Init /\ [][Next]_vars

Complete == aux # 0

DigitsOf(p) == [i \in 1..Len(p) |-> 48 + p[i]]
(* literal forms: 1 digits  2 digits.digits  3 .digits  4 digits%  5 d^d  6 0.digits  7 digits.0 *)
LitLex == LET d == DigitsOf(pat) IN
  CASE aux = 1 -> d
    [] aux = 2 -> d \o <<46>> \o d
    [] aux = 3 -> <<46>> \o d
    [] aux = 4 -> d \o <<37>>
    [] aux = 5 -> <<d[1]>> \o <<94>> \o <<d[Len(d)]>>
    [] aux = 6 -> <<48, 46>> \o d
    [] aux = 7 -> d \o <<46, 48>>

SlotArgs == [i \in 1..Len(pat) |-> IF pat[i] = 1 THEN N(Digit(i)) ELSE Omit]
Templates == << [k |-> "bin", op |-> "+", l |-> N(<<49>>), r |-> [k |-> "bin", op |-> "*", l |-> N(<<50>>), r |-> [k |-> "cell", s |-> <<97, 49>>]]],
                [k |-> "call", f |-> "REC", args |-> <<N(<<49>>), [k |-> "neg", e |-> [k |-> "var", name |-> "va"]]>>],
                [k |-> "bin", op |-> "<=", l |-> [k |-> "paren", e |-> [k |-> "bin", op |-> "-", l |-> N(<<52>>), r |-> N(<<49>>)]], r |-> [k |-> "arr", items |-> <<N(<<51>>)>>]],
                [k |-> "bin", op |-> "&", l |-> [k |-> "str", s |-> <<97, 32, 98>>, q |-> 34], r |-> [k |-> "range", a |-> <<65, 49>>, b |-> <<66, 50>>]] >>

Ast ==
  CASE kind = "slots" -> [k |-> "call", f |-> "REC", args |-> SlotArgs, sep |-> Seps[aux]]
    [] kind = "lit" -> N(LitLex)
    [] kind = "arr" ->
         IF aux <= 3 THEN [k |-> "arr", items |-> [i \in 1..Len(pat) |-> N(Digit(pat[i]))], sep |-> Seps[aux]]
         ELSE [k |-> "arr", rows |-> TRUE, sep |-> ";",
               items |-> << [k |-> "arr", items |-> [i \in 1..Len(pat) |-> N(Digit(pat[i]))], sep |-> IF aux = 4 THEN "," ELSE "\\"],
                            [k |-> "arr", items |-> [i \in 1..Len(pat) |-> N(Digit(pat[i] + 2))], sep |-> IF aux = 4 THEN "," ELSE "\\"] >>]
    [] kind = "layout" -> Templates[aux]

Res == Ev(Ast, Env)

(* laws *)
SlotLaw == (Complete /\ kind = "slots") =>
   /\ Res.ab = "" /\ Len(Res.ev) = 1 /\ Len(Res.ev[1].args) = Len(pat)
   /\ \A i \in 1..Len(pat) : Res.ev[1].args[i] = IF pat[i] = 1 THEN IntV(i) ELSE Blank
LitLaw == (Complete /\ kind = "lit") =>
   LET v == LitValue(LitLex) IN
     \/ IsUnspec(v)
     \/ /\ aux = 1 => v = IntV(DigitsVal(DigitsOf(pat)))
        /\ aux = 4 => QEq(QMul(QOf(v), QI(100)), QI(DigitsVal(DigitsOf(pat))))
        /\ aux = 7 => v = IntV(DigitsVal(DigitsOf(pat)))
        /\ aux \in {3, 6} => QLt(QOf(v), QI(1))
ArrLaw == (Complete /\ kind = "arr") =>
   LET v == ValOf(Res.e) IN
     IF aux <= 3 THEN v.t = "arr" /\ Len(v.a) = Len(pat) /\ \A i \in 1..Len(pat) : v.a[i] = IntV(pat[i])
     ELSE v.t = "arr" /\ Len(v.a) = 2 /\ v.a[1].t = "arr" /\ Len(v.a[1].a) = Len(pat) /\ Len(v.a[2].a) = Len(pat)

ExportInv == Complete => CSVWrite("%1$s", <<ToJson([kind |-> kind, ast |-> Ast, layout |-> IF kind = "layout" THEN pat ELSE <<>>])>>, IOEnv.CASE_FILE)
=============================================================================
