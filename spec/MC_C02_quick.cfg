SPECIFICATION Spec
CONSTANTS
  H = 3
  ClearOnEnd = TRUE
  Export = TRUE
  Parsers = {"p1"}
  Builtins = {"SUM"}
INVARIANT OutcomeIsFunction
INVARIANT NoRetention
INVARIANT ExportInv
PROPERTY BindingsUntouched
CHECK_DEADLOCK FALSE
