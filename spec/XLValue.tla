------------------------------ MODULE XLValue ------------------------------
(***************************************************************************)
(* Layer 1 of the hotxlfp specification: spreadsheet values and the        *)
(* coercions every operator and function is built from.                    *)
(*                                                                         *)
(* Encodings (forced by TLC: 32-bit integers, strings cannot be indexed):  *)
(*   number   [t |-> "num", n |-> Int, d |-> Nat \ {0}]   exact rational   *)
(*   text     [t |-> "txt", s |-> Seq(Nat)]               code points      *)
(*   logical  [t |-> "bool", b |-> BOOLEAN]                                *)
(*   blank    [t |-> "blank"]                                              *)
(*   error    [t |-> "err", c |-> code]                                    *)
(*   date     [t |-> "date", y, mo, d, ms]   civil date + ms of the day    *)
(*   array    [t |-> "arr", a |-> Seq(value)]                              *)
(*   opaque   [t |-> "opq", r |-> STRING]    any other host object         *)
(*   float    [t |-> "flt", r |-> STRING]    a float with no small exact   *)
(*                                           rational within 4 ulp         *)
(*   unspec   [t |-> "unspec"]   no property fixes this value              *)
(***************************************************************************)
EXTENDS Integers, Sequences, FiniteSets, TLC

Codes == {"#ERROR!", "#DIV/0!", "#NAME?", "#N/A", "#NULL!", "#NUM!", "#REF!", "#VALUE!",
          "#GETTING_DATA"}

Blank == [t |-> "blank"]
Unspec == [t |-> "unspec"]
Err(c) == [t |-> "err", c |-> c]
Bool(b) == [t |-> "bool", b |-> b]
Txt(s) == [t |-> "txt", s |-> s]
Arr(a) == [t |-> "arr", a |-> a]
Date(y, mo, d, ms) == [t |-> "date", y |-> y, mo |-> mo, d |-> d, ms |-> ms]

IsErr(v) == v.t = "err"
IsNum(v) == v.t = "num"
IsTxt(v) == v.t = "txt"
IsBool(v) == v.t = "bool"
IsBlank(v) == v.t = "blank"
IsDate(v) == v.t = "date"
IsArr(v) == v.t = "arr"
IsUnspec(v) == v.t = "unspec"

(***************************************************************************)
(* Exact rationals over TLC integers.  Overflow is a loud TLC error (a     *)
(* machinery failure, never a verdict); generators keep values small.      *)
(***************************************************************************)
AbsI(x) == IF x < 0 THEN -x ELSE x
SgnI(x) == IF x < 0 THEN -1 ELSE IF x = 0 THEN 0 ELSE 1

RECURSIVE Gcd(_, _)
Gcd(a, b) == IF b = 0 THEN a ELSE Gcd(b, a % b)

Q(n, d) == LET g == Gcd(AbsI(n), AbsI(d))
               s == IF d < 0 THEN -1 ELSE 1
           IN [n |-> s * (n \div g), d |-> s * (d \div g)]   \* d # 0

QI(n) == [n |-> n, d |-> 1]
QAdd(a, b) == Q(a.n * b.d + b.n * a.d, a.d * b.d)
QSub(a, b) == Q(a.n * b.d - b.n * a.d, a.d * b.d)
QMul(a, b) == Q(a.n * b.n, a.d * b.d)
QDiv(a, b) == Q(a.n * b.d, a.d * b.n)                         \* b.n # 0
QNeg(a) == [n |-> -a.n, d |-> a.d]
QLt(a, b) == a.n * b.d < b.n * a.d
QLe(a, b) == a.n * b.d <= b.n * a.d
QEq(a, b) == a.n * b.d = b.n * a.d
QIsInt(a) == a.d = 1
QFloor(a) == a.n \div a.d                   \* TLC's \div floors (toward -infinity)
QSign(a) == SgnI(a.n)
QAbs(a) == [n |-> AbsI(a.n), d |-> a.d]

Num(n, d) == LET q == Q(n, d) IN [t |-> "num", n |-> q.n, d |-> q.d]
NumQ(q) == [t |-> "num", n |-> q.n, d |-> q.d]
IntV(n) == [t |-> "num", n |-> n, d |-> 1]
QOf(v) == [n |-> v.n, d |-> v.d]            \* of a "num" value

(***************************************************************************)
(* Text: sequences of code points.                                         *)
(***************************************************************************)
IsDigitC(c) == c >= 48 /\ c <= 57
IsUpperC(c) == c >= 65 /\ c <= 90
IsLowerC(c) == c >= 97 /\ c <= 122
IsLetterC(c) == IsUpperC(c) \/ IsLowerC(c)
UpperC(c) == IF IsLowerC(c) THEN c - 32 ELSE c
LowerC(c) == IF IsUpperC(c) THEN c + 32 ELSE c
UpperS(s) == [i \in 1..Len(s) |-> UpperC(s[i])]
LowerS(s) == [i \in 1..Len(s) |-> LowerC(s[i])]

RECURSIVE DigitsVal(_)
DigitsVal(s) == IF s = <<>> THEN 0
                ELSE 10 * DigitsVal(SubSeq(s, 1, Len(s) - 1)) + (s[Len(s)] - 48)

RECURSIVE Pow10(_)
Pow10(k) == IF k = 0 THEN 1 ELSE 10 * Pow10(k - 1)

AllDigits(s) == s # <<>> /\ \A i \in 1..Len(s) : IsDigitC(s[i])

(* decimal digits of a natural number *)
RECURSIVE NatDigits(_)
NatDigits(n) == IF n < 10 THEN <<48 + n>> ELSE Append(NatDigits(n \div 10), 48 + (n % 10))
IntText(n) == IF n < 0 THEN <<45>> \o NatDigits(-n) ELSE NatDigits(n)

(* Numeric text in the sense of the properties: [+-]?digits(.digits)?      *)
(* Result: [ok |-> BOOLEAN, q |-> rational].  Generators keep <= 9 digits. *)
NumericText(s) ==
  LET sgn == IF s # <<>> /\ s[1] = 45 THEN -1 ELSE 1
      body == IF s # <<>> /\ s[1] \in {43, 45} THEN Tail(s) ELSE s
      dots == {i \in 1..Len(body) : body[i] = 46}
  IN IF dots = {}
     THEN IF AllDigits(body) /\ Len(body) <= 9
          THEN [ok |-> TRUE, q |-> QI(sgn * DigitsVal(body))]
          ELSE [ok |-> FALSE, q |-> QI(0)]
     ELSE IF Cardinality(dots) = 1
          THEN LET p == CHOOSE i \in dots : TRUE
                   ip == SubSeq(body, 1, p - 1)
                   fp == SubSeq(body, p + 1, Len(body))
               IN IF AllDigits(ip) /\ AllDigits(fp) /\ Len(ip) + Len(fp) <= 9
                  THEN [ok |-> TRUE, q |-> Q(sgn * DigitsVal(ip \o fp), Pow10(Len(fp)))]
                  ELSE [ok |-> FALSE, q |-> QI(0)]
          ELSE [ok |-> FALSE, q |-> QI(0)]

(* the same with a decimal exponent of at most five: 1e-05, 2.5E3, 1e+2 *)
ExpNumericText(s) ==
  LET es == {i \in 1..Len(s) : s[i] \in {101, 69}}
  IN IF Cardinality(es) # 1 THEN NumericText(s)
     ELSE LET p == CHOOSE i \in es : TRUE
              m == NumericText(SubSeq(s, 1, p - 1))
              xt == SubSeq(s, p + 1, Len(s))
              xs == IF xt # <<>> /\ xt[1] \in {43, 45} THEN Tail(xt) ELSE xt
              neg == xt # <<>> /\ xt[1] = 45
          IN IF ~m.ok \/ ~AllDigits(xs) \/ Len(xs) > 3 \/ DigitsVal(xs) > 5 THEN [ok |-> FALSE, q |-> QI(0)]
             ELSE LET k == Pow10(DigitsVal(xs))
                  IN IF neg THEN (IF m.q.d <= 10000 THEN [ok |-> TRUE, q |-> Q(m.q.n, m.q.d * k)] ELSE [ok |-> FALSE, q |-> QI(0)])
                     ELSE (IF AbsI(m.q.n) <= 10000 THEN [ok |-> TRUE, q |-> Q(m.q.n * k, m.q.d)] ELSE [ok |-> FALSE, q |-> QI(0)])

(***************************************************************************)
(* Arrays                                                                  *)
(***************************************************************************)
RECURSIVE FlattenSeq(_)
FlattenSeq(a) ==    \* a: Seq(value) -> Seq(non-array value), depth first
  IF a = <<>> THEN <<>>
  ELSE LET h == Head(a) IN
       (IF IsArr(h) THEN FlattenSeq(h.a) ELSE <<h>>) \o FlattenSeq(Tail(a))

RECURSIVE SeqSum(_)
SeqSum(s) == IF s = <<>> THEN 0 ELSE Head(s) + SeqSum(Tail(s))

(* first error of a sequence of values, or Blank if none *)
FirstErr(s) == IF \E i \in 1..Len(s) : IsErr(s[i])
               THEN s[CHOOSE i \in 1..Len(s) : IsErr(s[i]) /\ \A j \in 1..(i - 1) : ~IsErr(s[j])]
               ELSE Blank
=============================================================================
