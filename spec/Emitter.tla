------------------------------ MODULE Emitter ------------------------------
(***************************************************************************)
(* Reference specification of hotxlfp's event emitter (hotxlfp.Emitter,    *)
(* also the base class of hotxlfp.Parser).  Property C20.                  *)
(*                                                                         *)
(* One action per observable step:                                         *)
(*   Apply(o)    a public call on/once/off/off(cb)/emit, made by the       *)
(*               driver (stack empty) or by a running listener             *)
(*   Deliver     one listener of the snapshot of the emit on top is called *)
(*   CbReturn    the running listener returns                              *)
(*   EmitEnd     the emit on top has gone through its snapshot             *)
(* A multi-listener emit is several steps on purpose: listeners may call   *)
(* back into the emitter between deliveries (re-entrancy).                 *)
(*                                                                         *)
(* OnceGuard = TRUE  is the reference (the property: once means once).     *)
(* OnceGuard = FALSE is the mechanism of the pinned code: the once-wrapper *)
(* unsubscribes itself when called and nothing else protects it.           *)
(***************************************************************************)
EXTENDS Naturals, Sequences, FiniteSets

CONSTANTS Names,      \* event names
          OnceGuard   \* BOOLEAN, see above

VARIABLES subs,    \* [Names -> Seq(listener)]   listener = [id, cb, once, ctx, n]
          stack,   \* Seq(frame)  frame = [k |-> "emit", n, args, snap, idx, eid] | [k |-> "cb", cb, id]
          fired,   \* set of ids of once-listeners already delivered
          log,     \* Seq([id, cb, n, args, ctx, eid])  every delivery so far
          nextId,  \* next listener id
          nextEid  \* next emit id

evars == <<subs, stack, fired, log, nextId, nextEid>>

Top == stack[Len(stack)]
Pop == SubSeq(stack, 1, Len(stack) - 1)
Depth == Cardinality({i \in 1..Len(stack) : stack[i].k = "cb"})

EInit == /\ subs = [n \in Names |-> <<>>]
         /\ stack = <<>>
         /\ fired = {}
         /\ log = <<>>
         /\ nextId = 1
         /\ nextEid = 1

(* An op is a record [k, n, cb, x]: x is the context for on/once, the      *)
(* argument tuple for emit and unused (<<>>) otherwise; a context is <<>> (none) or <<c>>; cb is 0 when unused.  *)
CanApply == IF stack = <<>> THEN TRUE ELSE Top.k = "cb"

Apply(o) ==
  /\ CanApply
  /\ CASE o.k \in {"on", "once"} ->
            /\ subs' = [subs EXCEPT ![o.n] = Append(@, [id |-> nextId, cb |-> o.cb,
                                        once |-> (o.k = "once"), ctx |-> o.x, n |-> o.n])]
            /\ nextId' = nextId + 1
            /\ UNCHANGED <<stack, nextEid>>
       [] o.k = "off" ->
            /\ subs' = [subs EXCEPT ![o.n] = <<>>]
            /\ UNCHANGED <<stack, nextId, nextEid>>
       [] o.k = "offcb" ->
            /\ subs' = [subs EXCEPT ![o.n] = SelectSeq(@, LAMBDA l : l.cb # o.cb)]
            /\ UNCHANGED <<stack, nextId, nextEid>>
       [] o.k = "emit" ->
            /\ stack' = Append(stack, [k |-> "emit", n |-> o.n, args |-> o.x,
                                       snap |-> subs[o.n], idx |-> 1, eid |-> nextEid])
            /\ nextEid' = nextEid + 1
            /\ UNCHANGED <<subs, nextId>>
  /\ UNCHANGED <<fired, log>>

(* A once-listener still pending in the snapshot of an enclosing emit of   *)
(* the same name.  The property does not say which of two nested emits is  *)
(* "the first" for such a listener, so the reference lets either deliver   *)
(* it - but never both.                                                    *)
ClaimedByOuter(l) ==
  \E f \in 1..(Len(stack) - 1) :
     /\ stack[f].k = "emit"
     /\ \E j \in stack[f].idx..Len(stack[f].snap) : stack[f].snap[j].id = l.id

MustSkip(l) == OnceGuard /\ l.once /\ l.id \in fired
MaySkip(l)  == MustSkip(l) \/ (OnceGuard /\ l.once /\ ClaimedByOuter(l))

InEmit == IF stack = <<>> THEN FALSE ELSE Top.k = "emit"

(* Deliver the listener at position j of the top snapshot; everything      *)
(* between the cursor and j is skipped and has to be skippable.            *)
DeliverAt(j) ==
  /\ InEmit
  /\ j \in Top.idx..Len(Top.snap)
  /\ \A i \in Top.idx..(j - 1) : MaySkip(Top.snap[i])
  /\ ~MustSkip(Top.snap[j])
  /\ LET l == Top.snap[j] IN
       /\ stack' = Append(Append(Pop, [Top EXCEPT !.idx = j + 1]),
                          [k |-> "cb", cb |-> l.cb, id |-> l.id])
       /\ log' = Append(log, [id |-> l.id, cb |-> l.cb, n |-> Top.n, args |-> Top.args,
                              ctx |-> l.ctx, eid |-> Top.eid, sn |-> l.n])
       /\ fired' = IF l.once THEN fired \cup {l.id} ELSE fired
       /\ subs' = IF l.once
                  THEN [subs EXCEPT ![l.n] = SelectSeq(@, LAMBDA x : x.id # l.id)]
                  ELSE subs
  /\ UNCHANGED <<nextId, nextEid>>

Deliver == InEmit /\ \E j \in 1..Len(Top.snap) : DeliverAt(j)

InCb == IF stack = <<>> THEN FALSE ELSE Top.k = "cb"

CbReturn ==
  /\ InCb
  /\ stack' = Pop
  /\ UNCHANGED <<subs, fired, log, nextId, nextEid>>

EmitEnd ==
  /\ InEmit
  /\ \A i \in Top.idx..Len(Top.snap) : MaySkip(Top.snap[i])
  /\ stack' = Pop
  /\ UNCHANGED <<subs, fired, log, nextId, nextEid>>

(***************************************************************************)
(* The property, as predicates over the delivery log.                      *)
(***************************************************************************)
OnceAtMostOnce ==
  \A i, j \in 1..Len(log) :
     (i < j /\ log[i].id = log[j].id) => (log[i].id \notin fired)

(* fired holds exactly the once ids delivered, so a once id occurs once.   *)
NameIsolation == \A i \in 1..Len(log) : log[i].n = log[i].sn

(* within one emit, deliveries follow subscription order (ids grow)        *)
OrderedDelivery ==
  \A i, j \in 1..Len(log) :
     (i < j /\ log[i].eid = log[j].eid) => log[i].id < log[j].id

(* every listener the cursor of an emit has passed was delivered by that   *)
(* emit, or is a once-listener delivered by another one                    *)
NothingDropped ==
  \A f \in 1..Len(stack) :
     stack[f].k = "emit" =>
       \A p \in 1..(stack[f].idx - 1) :
          LET l == stack[f].snap[p] IN
            \/ \E i \in 1..Len(log) : log[i].id = l.id /\ log[i].eid = stack[f].eid
            \/ l.once /\ \E i \in 1..Len(log) : log[i].id = l.id
            \/ l.once /\ \E g \in 1..(f - 1) : stack[g].k = "emit" /\
                     \E q \in stack[g].idx..Len(stack[g].snap) : stack[g].snap[q].id = l.id
=============================================================================
