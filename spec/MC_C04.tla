------------------------------- MODULE MC_C04 -------------------------------
(* C04 on the specification.  Trees are generated in Polish notation one     *)
(* symbol per step; leaves are assigned by position (distinct primes and     *)
(* dyadic fractions as literal, variable, cell, call).  For every tree the   *)
(* shift-reduce machine of XLExpr is run - as TLC steps - on its Min, Full   *)
(* and Red renderings and must accept with exactly that tree; the tree and   *)
(* its renderings are exported for replay on the real parser.                *)
EXTENDS XLExpr, XLEval, Json, IOUtils, CSV

CONSTANT MaxOps

BinSyms == <<"+", "-", "*", "/", "=", "<", ">", "&">>
LeafPool == << [k |-> "num", s |-> <<50>>],                      \* 2
               [k |-> "var", name |-> "vc"],                      \* 3
               [k |-> "cell", s |-> <<67, 53>>],                  \* C5 = 5
               [k |-> "call", f |-> "SUM", args |-> <<[k |-> "num", s |-> <<55>>]>>],  \* SUM(7)
               [k |-> "num", s |-> <<48, 46, 53>>],               \* 0.5
               [k |-> "var", name |-> "vk"],                      \* 11
               [k |-> "cell", s |-> <<36, 97, 36, 49>>],          \* $a$1 = 13
               [k |-> "call", f |-> "ABS", args |-> <<[k |-> "neg", e |-> [k |-> "num", s |-> <<48, 46, 50, 53>>]]>>] >> \* ABS(-0.25)
Env == [vars |-> [vc |-> IntV(3), vk |-> IntV(11)], funcs |-> <<>>,
        cellsets |-> <<[key |-> <<67, 53>>, vals |-> <<IntV(5)>>], [key |-> <<65, 49>>, vals |-> <<IntV(13)>>]>>,
        rangesets |-> <<>>, varsets |-> <<>>, fnsets |-> <<>>]

(* Polish prefix sequence -> tree; returns [t, rest, nl] *)
RECURSIVE FromPolish(_, _)
FromPolish(p, nl) ==
  LET h == Head(p) IN
  IF h = "L" THEN [t |-> LeafPool[nl + 1], rest |-> Tail(p), nl |-> nl + 1]
  ELSE IF h = "neg" THEN LET a == FromPolish(Tail(p), nl)
                         IN [t |-> [k |-> "neg", e |-> a.t], rest |-> a.rest, nl |-> a.nl]
  ELSE LET a == FromPolish(Tail(p), nl)
           b == FromPolish(a.rest, a.nl)
       IN [t |-> [k |-> "bin", op |-> h, l |-> a.t, r |-> b.t], rest |-> b.rest, nl |-> b.nl]

VARIABLES pre, need, nops, phase, mode, m
vars == <<pre, need, nops, phase, mode, m>>

Init == pre = <<>> /\ need = 1 /\ nops = 0 /\ phase = "gen" /\ mode = "" /\ m = MInit

Tree == FromPolish(pre, 0).t
Toks == CASE mode = "min" -> Min(Tree) [] mode = "full" -> Full(Tree) [] mode = "red" -> Red(Tree)

Gen == /\ phase = "gen" /\ need > 0
       /\ \/ /\ pre' = Append(pre, "L") /\ need' = need - 1 /\ nops' = nops
          \/ /\ nops < MaxOps /\ pre' = Append(pre, "neg") /\ need' = need /\ nops' = nops + 1
             /\ (IF pre = <<>> THEN TRUE ELSE pre[Len(pre)] # "neg")       \* no double minus
          \/ /\ nops < MaxOps /\ \E i \in 1..Len(BinSyms) : pre' = Append(pre, BinSyms[i])
             /\ need' = need + 1 /\ nops' = nops + 1
       /\ UNCHANGED <<phase, mode, m>>
Pick == /\ phase = "gen" /\ need = 0
        /\ phase' = "run" /\ mode' \in {"min", "full", "red"}
        /\ UNCHANGED <<pre, need, nops, m>>
Run == /\ phase = "run" /\ ~m.done
       /\ m' = MStep(m, Toks, LeafSeq(Tree))
       /\ UNCHANGED <<pre, need, nops, phase, mode>>
Next == Gen \/ Pick \/ Run
Spec == Init /\ [][Next]_vars

(* the round trip: the machine accepts every rendering with exactly the tree *)
RoundTrip == (phase = "run" /\ m.done) => (m.ok /\ MTop(m.st).t = Tree)
(* and the functional form agrees with the stepwise one *)
FunctionalAgrees == (phase = "run" /\ m.done) => Parse(Toks, LeafSeq(Tree)) = Tree
(* the value of the tree is defined (possibly as "unspecified") *)
ValTotal == (phase = "gen" /\ need = 0) => TopExpect(Tree, Env).k \in {"val", "any", "errs", "ser", "arr", "truth"}
MachineBounded == m.pos <= 200
ExportInv == (phase = "gen" /\ need = 0 /\ nops > 0) =>
   CSVWrite("%1$s", <<ToJson([ast |-> Tree, min |-> Min(Tree), full |-> Full(Tree), red |-> Red(Tree)])>>, IOEnv.CASE_FILE)
=============================================================================
