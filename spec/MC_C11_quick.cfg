SPECIFICATION Spec
CONSTANTS
  MaxLen = 4
INVARIANT OrderFree
INVARIANT ErrorWinsLaw
INVARIANT SelectionLaws
INVARIANT ExportInv
CHECK_DEADLOCK FALSE
