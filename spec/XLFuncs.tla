------------------------------ MODULE XLFuncs ------------------------------
(***************************************************************************)
(* Layer 2: built-in functions, as far as the properties fix them.         *)
(* BuiltinExpect(f, args) is the expectation (see XLOps) for the value of  *)
(* the call f(args) on evaluated argument values; functions or argument    *)
(* combinations no property speaks about give EAny.                        *)
(***************************************************************************)
EXTENDS XLOps, XLText, XLAgg

BN == INSTANCE BigNat
ETruth(b) == [k |-> "truth", b |-> b]     \* TRUE/FALSE, or 1/0 (Python truth values)
EAnyNum == [k |-> "anynum"]
EAnyErr == EErrs(Codes)

(***************************************************************************)
(* C12  logic                                                              *)
(***************************************************************************)
(* a float with no small exact value ("flt") or an integer beyond TLC's range ("big") is a number other than zero *)
OtherNumber(v) == (v.t = "flt" /\ v.r \notin {"nan", "inf", "-inf"}) \/ v.t = "big"
TruthDefined(v) == v.t \in {"bool", "num", "blank"} \/ OtherNumber(v)
Truth(v) == IF v.t = "bool" THEN v.b ELSE IF v.t = "num" THEN v.n # 0 ELSE OtherNumber(v)

Flat(args) == FlattenSeq(args)

(* AND / OR / XOR over the flattened arguments.  The statement fixes the     *)
(* truth value of logicals, numbers and blanks only; with an error or text   *)
(* item among them nothing is required.                                      *)
Junction(kind, args) ==
  LET xs == Flat(args)
  IN IF xs = <<>> THEN EAny
     ELSE IF \E i \in 1..Len(xs) : ~TruthDefined(xs[i]) THEN EAny
     ELSE LET nTrue == Cardinality({i \in 1..Len(xs) : Truth(xs[i])})
          IN CASE kind = "AND" -> ETruth(nTrue = Len(xs))
               [] kind = "OR" -> ETruth(nTrue > 0)
               [] kind = "XOR" -> ETruth(nTrue % 2 = 1)

OfV(v) == IF IsUnspec(v) THEN EAny ELSE EVal(v)

IfExpect(args) ==
  IF Len(args) # 3 THEN EAny
  ELSE LET c == args[1] IN
       IF IsErr(c) THEN EVal(c)
       ELSE IF ~TruthDefined(c) THEN EAny
       ELSE IF Truth(c) THEN OfV(args[2]) ELSE OfV(args[3])

RECURSIVE IfsExpect(_)
IfsExpect(args) ==
  IF args = <<>> THEN EVal(Err("#N/A"))
  ELSE IF Len(args) = 1 THEN EAny
  ELSE LET c == args[1] IN
       IF IsErr(c) THEN EVal(c)
       ELSE IF ~TruthDefined(c) THEN EAny
       ELSE IF Truth(c) THEN OfV(args[2])
       ELSE IfsExpect(SubSeq(args, 3, Len(args)))

(* equality used by SWITCH: defined between values of the same plain type  *)
(* (a blank equals a blank; a blank against 0, "" or FALSE is left open)    *)
SwEqDefined(a, b) == \/ (a.t = "blank" /\ b.t = "blank")
                     \/ /\ a.t \in {"num", "txt", "bool"} /\ b.t \in {"num", "txt", "bool"}
                        /\ ~({a.t, b.t} = {"num", "bool"})
SwEq(a, b) == a.t = b.t /\ (IF a.t = "blank" THEN TRUE ELSE IF a.t = "num" THEN QEq(QOf(a), QOf(b))
                            ELSE IF a.t = "txt" THEN a.s = b.s ELSE a.b = b.b)

RECURSIVE SwitchExpect(_, _)
SwitchExpect(t, rest) ==
  IF rest = <<>> THEN EVal(Err("#N/A"))
  ELSE IF Len(rest) = 1 THEN OfV(rest[1])                 \* default
  ELSE IF ~SwEqDefined(t, rest[1]) THEN EAny
  ELSE IF SwEq(t, rest[1]) THEN OfV(rest[2])
  ELSE SwitchExpect(t, SubSeq(rest, 3, Len(rest)))

(***************************************************************************)
(* C12 / C08  type predicates and error trapping                           *)
(***************************************************************************)
Classified(v) == v.t \in {"num", "txt", "bool", "blank", "err"} \/ OtherNumber(v)

Pred(f, v) ==
  IF IsUnspec(v) THEN EAny
  ELSE CASE f = "ISERROR" -> IF Classified(v) \/ v.t \in {"date", "arr"} THEN ETruth(IsErr(v)) ELSE EAny
         [] f = "ISERR" -> IF Classified(v) \/ v.t \in {"date", "arr"} THEN ETruth(IsErr(v) /\ v.c # "#N/A") ELSE EAny
         [] f = "ISNA" -> IF Classified(v) \/ v.t \in {"date", "arr"} THEN ETruth(IsErr(v) /\ v.c = "#N/A") ELSE EAny
         [] f = "ISNUMBER" -> IF Classified(v) THEN ETruth(v.t = "num" \/ OtherNumber(v)) ELSE EAny
         [] f = "ISTEXT" -> IF Classified(v) THEN ETruth(v.t = "txt") ELSE EAny
         [] f = "ISNONTEXT" -> IF Classified(v) THEN ETruth(v.t # "txt") ELSE EAny
         [] f = "ISLOGICAL" -> IF Classified(v) THEN ETruth(v.t = "bool") ELSE EAny
         [] f = "ISBLANK" -> IF Classified(v) THEN ETruth(v.t = "blank") ELSE EAny

(* parity of the integer part (truncation toward zero)                     *)
TruncQ(q) == IF q.n >= 0 THEN q.n \div q.d ELSE -((-q.n) \div q.d)
(* an exactly given float with a claimed integer part ip (of its magnitude): the claim is checked, ip*den <= num < (ip+1)*den *)
FloatParity(f, v) ==
  LET num == BN!BOfDigits(v.nd)
      den == BN!BOfDigits(v.dd)
      ok == v.ip >= 0 /\ v.ip < 100000 /\ BN!BLe(BN!BNorm(BN!BMulAdd(den, v.ip, 0)), num) /\ BN!BLt(num, BN!BMulAdd(den, v.ip + 1, 0))
  IN IF ~ok THEN EAny ELSE ETruth(IF f = "ISODD" THEN v.ip % 2 = 1 ELSE v.ip % 2 = 0)
Parity(f, v) ==
  IF IsErr(v) THEN EAny
  ELSE IF v.t = "flt" /\ "ip" \in DOMAIN v /\ "nd" \in DOMAIN v THEN FloatParity(f, v)
  ELSE IF v.t = "big" /\ "ld" \in DOMAIN v      \* a whole number beyond TLC's range, given with its last decimal digit
       THEN ETruth(IF f = "ISODD" THEN v.ld % 2 = 1 ELSE v.ld % 2 = 0)
  ELSE IF v.t # "num" THEN EAny
  ELSE LET odd == TruncQ(QOf(v)) % 2 = 1
       IN ETruth(IF f = "ISODD" THEN odd ELSE ~odd)

(***************************************************************************)
(* a few numeric functions used as leaves by C04/C08 (C11/C16/C17 extend)  *)
(***************************************************************************)
RECURSIVE SumQ(_)
SumQ(xs) == IF xs = <<>> THEN QI(0) ELSE QAdd(QOf(Head(xs)), SumQ(Tail(xs)))

(* items of an aggregate: all numbers -> defined; an error item -> it      *)
AggItems(args) == Flat(args)
AllNums(xs) == \A i \in 1..Len(xs) : xs[i].t = "num"
NumsOrErrs(xs) == \A i \in 1..Len(xs) : xs[i].t \in {"num", "err"}

SumExpect(args) ==
  LET xs == AggItems(args)
  IN IF xs # <<>> /\ NumsOrErrs(xs) /\ ~AllNums(xs) THEN EVal(FirstErr(xs))
     ELSE IF xs # <<>> /\ AllNums(xs) /\ \A i \in 1..Len(xs) : Small(QOf(xs[i])) /\ Len(xs) <= 50
          THEN EVal(NumQ(SumQ(xs)))
     ELSE EAny

AbsExpect(args) ==
  IF Len(args) # 1 THEN EAny
  ELSE IF args[1].t = "num" THEN EVal(NumQ(QAbs(QOf(args[1]))))
  ELSE IF args[1].t = "bool" THEN EVal(IntV(IF args[1].b THEN 1 ELSE 0))
  ELSE IF args[1].t = "txt" /\ NumericText(args[1].s).ok THEN EVal(NumQ(QAbs(NumericText(args[1].s).q)))
  ELSE IF args[1].t = "txt" /\ TextIsPlain(args[1].s) THEN EErrs(Codes)
  ELSE EAny

(***************************************************************************)
(* C18  lookup                                                             *)
(***************************************************************************)
EAlts(es) == [k |-> "alts", es |-> es]       \* any one of these expectations

IsIntV(v) == v.t = "num" /\ v.d = 1

ChooseExpect(args) ==
  IF Len(args) < 2 \/ ~IsIntV(args[1]) THEN EAny
  ELSE LET i == args[1].n IN
       IF i >= 1 /\ i <= Len(args) - 1 THEN OfV(args[i + 1]) ELSE EAnyErr

Is2D(a) == IsArr(a) /\ a.a # <<>> /\ \A i \in 1..Len(a.a) : IsArr(a.a[i])
Is1D(a) == IsArr(a) /\ a.a # <<>> /\ \A i \in 1..Len(a.a) : ~IsArr(a.a[i])
Rect(a) == \A i \in 1..Len(a.a) : Len(a.a[i].a) = Len(a.a[1].a) /\ Len(a.a[1].a) >= 1
Column(a, c) == Arr([i \in 1..Len(a.a) |-> a.a[i].a[c]])

(* r, c: index values or Blank for an omitted one *)
IndexExpect(args) ==
  IF Len(args) < 2 \/ Len(args) > 3 THEN EAny
  ELSE LET a == args[1]
           r == args[2]
           c == IF Len(args) = 3 THEN args[3] ELSE Blank
       IN IF ~(IsIntV(r) \/ IsBlank(r)) \/ ~(IsIntV(c) \/ IsBlank(c)) THEN EAny
          ELSE IF Is1D(a)
          THEN LET n == Len(a.a)
                   (* one index: by position; 0: an error or the whole array, never one element *)
                   ByPos(i) == IF i.n >= 1 /\ i.n <= n THEN OfV(a.a[i.n])
                               ELSE IF i.n = 0 THEN EAlts(<<EAnyErr, EVal(a)>>) ELSE EAnyErr
                   (* two indices: the orientation is not fixed, so the array may be read as a column (c is 0 or 1)  *)
                   (* or as a row (r is 0 or 1); whatever the reading, the answer is that element (the whole array   *)
                   (* for position 0) or an error - never anything else                                              *)
                   Cand(i, other) == IF other.n \in {0, 1}
                                     THEN (IF i.n >= 1 /\ i.n <= n THEN <<OfV(a.a[i.n])>>
                                           ELSE IF i.n = 0 THEN <<EVal(a)>> ELSE <<>>)
                                     ELSE <<>>
               IN IF IsBlank(r) /\ IsBlank(c) THEN EAny
                  ELSE IF IsBlank(c) THEN ByPos(r)
                  ELSE IF IsBlank(r) THEN ByPos(c)
                  ELSE EAlts(<<EAnyErr>> \o Cand(r, c) \o Cand(c, r))
          ELSE IF Is2D(a) /\ Rect(a)
          THEN LET nr == Len(a.a)
                   nc == Len(a.a[1].a)
                   rz == IsBlank(r) \/ r.n = 0
                   cz == IsBlank(c) \/ c.n = 0
               IN IF rz /\ cz THEN EAny
                  ELSE IF ~rz /\ (r.n < 1 \/ r.n > nr) THEN EAnyErr
                  ELSE IF ~cz /\ (c.n < 1 \/ c.n > nc) THEN EAnyErr
                  ELSE IF cz THEN OfV(a.a[r.n])                       \* whole row
                  ELSE IF rz THEN OfV(Column(a, c.n))                  \* whole column
                  ELSE OfV(a.a[r.n].a[c.n])
          ELSE EAny

(* wildcard match of pattern p against text s (code point sequences, already lower-cased) *)
RECURSIVE Wild(_, _)
Wild(p, s) ==
  IF p = <<>> THEN s = <<>>
  ELSE IF p[1] = 42 THEN Wild(Tail(p), s) \/ (s # <<>> /\ Wild(p, Tail(s)))
  ELSE IF s = <<>> THEN FALSE
  ELSE (p[1] = 63 \/ p[1] = s[1]) /\ Wild(Tail(p), Tail(s))

NumItems(a) == \A i \in 1..Len(a.a) : a.a[i].t = "num"
TxtItems(a) == \A i \in 1..Len(a.a) : a.a[i].t = "txt"
Ascending(a) == \A i \in 1..(Len(a.a) - 1) : QLe(QOf(a.a[i]), QOf(a.a[i + 1]))
Descending(a) == \A i \in 1..(Len(a.a) - 1) : QLe(QOf(a.a[i + 1]), QOf(a.a[i]))
NoBracket(s) == \A i \in 1..Len(s) : s[i] \notin {91, 93}
SmallNums(a) == \A i \in 1..Len(a.a) : Small(QOf(a.a[i]))

MatchExpect(args) ==
  IF Len(args) # 3 \/ ~Is1D(args[2]) \/ ~IsIntV(args[3]) THEN EAny
  ELSE LET x == args[1]
           a == args[2]
           t == args[3].n
           n == Len(a.a)
       IN IF t = 0
          THEN IF x.t = "num" /\ NumItems(a) /\ Small(QOf(x)) /\ SmallNums(a)
               THEN LET hits == {i \in 1..n : QEq(QOf(a.a[i]), QOf(x))}
                    IN IF hits = {} THEN EVal(Err("#N/A")) ELSE EVal(IntV(CHOOSE i \in hits : \A j \in hits : i <= j))
               ELSE IF x.t = "txt" /\ TxtItems(a) /\ NoBracket(x.s)
               THEN LET hits == {i \in 1..n : Wild(LowerS(x.s), LowerS(a.a[i].s))}
                    IN IF hits = {} THEN EVal(Err("#N/A")) ELSE EVal(IntV(CHOOSE i \in hits : \A j \in hits : i <= j))
               ELSE EAny
          ELSE IF t \in {1, -1} /\ x.t = "num" /\ NumItems(a) /\ Small(QOf(x)) /\ SmallNums(a)
                  /\ (IF t = 1 THEN Ascending(a) ELSE Descending(a))
          THEN LET ok == {i \in 1..n : IF t = 1 THEN QLe(QOf(a.a[i]), QOf(x)) ELSE QLe(QOf(x), QOf(a.a[i]))}
               IN IF ok = {} THEN EVal(Err("#N/A"))
                  ELSE LET best == CHOOSE i \in ok : \A j \in ok :
                                      IF t = 1 THEN QLe(QOf(a.a[j]), QOf(a.a[i])) ELSE QLe(QOf(a.a[i]), QOf(a.a[j]))
                           same == {i \in ok : QEq(QOf(a.a[i]), QOf(a.a[best]))}
                       IN [k |-> "posin", ps |-> same]                    \* any position holding that item
          ELSE EAny

(***************************************************************************)
(* C11  aggregates                                                         *)
(***************************************************************************)
QsOf(xs) == [i \in 1..Len(xs) |-> QOf(xs[i])]
LinSafe(qs) == Len(qs) <= 50 /\ Scalable(qs, 100) /\ \A i \in 1..Len(qs) : AbsI(qs[i].n) <= 10000 * qs[i].d
SqSafe(qs) == Len(qs) <= 12 /\ Scalable(qs, 10) /\ \A i \in 1..Len(qs) : AbsI(qs[i].n) <= 300 * qs[i].d
IntSafe(qs) == Len(qs) <= 12 /\ \A i \in 1..Len(qs) : qs[i].d = 1 /\ AbsI(qs[i].n) <= 100
ProdSafe(qs) == Len(qs) <= 6 /\ \A i \in 1..Len(qs) : AbsI(qs[i].n) <= 30 /\ qs[i].d <= 2
HarSafe(qs) == Len(qs) <= 5 /\ \A i \in 1..Len(qs) : qs[i].n >= 1 /\ qs[i].n <= 12 /\ qs[i].d <= 2
ENumQ(q) == IF q.d > 100000 \/ AbsI(q.n) > 2000000000 THEN EAny ELSE EVal(NumQ(q))
ErrorWins == {"SUM", "PRODUCT", "AVERAGE", "MIN", "MAX", "MEDIAN"}

AggExpect(f, args) ==
  LET xs == Flat(args) IN
  IF xs = <<>> THEN EAny
  ELSE IF f \in ErrorWins /\ NumsOrErrs(xs) /\ ~AllNums(xs) THEN EVal(FirstErr(xs))
  ELSE IF ~AllNums(xs) THEN EAny
  ELSE LET qs == QsOf(xs)
           n == Len(qs)
       IN CASE f = "SUM" -> IF LinSafe(qs) THEN ENumQ(QSumS(qs)) ELSE EAny
            [] f = "COUNT" -> EVal(IntV(n))
            [] f = "AVERAGE" -> IF LinSafe(qs) THEN ENumQ(QMean(qs)) ELSE EAny
            [] f = "MIN" -> IF LinSafe(qs) THEN ENumQ(QMin(qs)) ELSE EAny
            [] f = "MAX" -> IF LinSafe(qs) THEN ENumQ(QMax(qs)) ELSE EAny
            [] f = "MEDIAN" -> IF LinSafe(qs) THEN ENumQ(QMedian(qs)) ELSE EAny
            [] f \in {"MODE", "MODE.SNGL"} -> IF LinSafe(qs) /\ HasUniqueMode(qs) THEN ENumQ(QMode(qs)) ELSE EAny
            [] f = "PRODUCT" -> IF ProdSafe(qs) THEN ENumQ(QProdS(qs)) ELSE EAny
            [] f \in {"VAR", "VAR.S"} -> IF SqSafe(qs) /\ n >= 2 THEN ENumQ(QVarS(qs)) ELSE EAny
            [] f \in {"VARP", "VAR.P"} -> IF SqSafe(qs) THEN ENumQ(QVarP(qs)) ELSE EAny
            [] f = "AVEDEV" -> IF SqSafe(qs) THEN ENumQ(QAveDev(qs)) ELSE EAny
            [] f = "HARMEAN" -> IF HarSafe(qs) THEN ENumQ(QHarMean(qs)) ELSE EAny

LargeExpect(args) ==
  IF Len(args) # 2 \/ ~IsArr(args[1]) \/ ~IsIntV(args[2]) THEN EAny
  ELSE LET xs == Flat(<<args[1]>>) IN
       IF xs = <<>> \/ ~AllNums(xs) \/ ~LinSafe(QsOf(xs)) THEN EAny
       ELSE IF args[2].n < 1 \/ args[2].n > Len(xs) THEN EAny
       ELSE ENumQ(QLarge(QsOf(xs), args[2].n))

(* SLOPE(y1..yn, x1..xn): the flat calling convention of the library *)
SlopeExpect(args) ==
  IF Len(args) < 4 \/ Len(args) % 2 = 1 \/ ~AllNums(args) THEN EAny
  ELSE LET h == Len(args) \div 2
           ys == QsOf(SubSeq(args, 1, h))
           xs == QsOf(SubSeq(args, h + 1, Len(args)))
       IN IF ~SqSafe(ys) \/ ~IntSafe(xs) \/ h > 6 THEN EAny
          ELSE IF ~SlopeDefined(ys, xs) THEN EAny
          ELSE ENumQ(QSlope(ys, xs))

(* selection by criteria; ranges are flat arrays of equal length *)
FlatCells(a) == IF IsArr(a) THEN Flat(<<a>>) ELSE <<a>>
(* pairs: Seq(<<cells, criterion value>>) ; returns [def, sel] *)
Selected(n, pairs) ==
  LET crs == [j \in 1..Len(pairs) |-> CritOf(pairs[j][2])]
      ms == [i \in 1..n |-> [j \in 1..Len(pairs) |-> CritMatch(crs[j], pairs[j][1][i])]]
  IN [def |-> \A i \in 1..n : \A j \in 1..Len(pairs) : ms[i][j].def,
      sel |-> {i \in 1..n : \A j \in 1..Len(pairs) : ms[i][j].ok}]
PickQs(cells, sel) == LET idx == SelectSeq([i \in 1..Len(cells) |-> i], LAMBDA i : i \in sel)
                      IN [k \in 1..Len(idx) |-> QOf(cells[idx[k]])]

IfsExpect2(f, vals, pairs) ==      \* vals: the cells aggregated; pairs as above
  LET n == Len(vals) IN
  IF n = 0 \/ n > 50 \/ \E j \in 1..Len(pairs) : Len(pairs[j][1]) # n THEN EAny
  ELSE LET s == Selected(n, pairs) IN
       IF ~s.def THEN EAny
       ELSE IF f = "COUNTIF" THEN EVal(IntV(Cardinality(s.sel)))
       ELSE IF \E i \in s.sel : vals[i].t # "num" THEN EAny
       ELSE LET qs == PickQs(vals, s.sel) IN
            IF ~LinSafe(qs) THEN EAny
            ELSE IF qs = <<>> THEN (IF f \in {"AVERAGEIF", "AVERAGEIFS"} THEN EAnyErr ELSE EVal(IntV(0)))
            ELSE CASE f \in {"SUMIF", "SUMIFS"} -> ENumQ(QSumS(qs))
                   [] f \in {"AVERAGEIF", "AVERAGEIFS"} -> ENumQ(QMean(qs))
                   [] f = "MAXIFS" -> ENumQ(QMax(qs))

CriteriaExpect(f, args) ==
  CASE f \in {"SUMIF", "COUNTIF"} ->
         IF Len(args) # 2 THEN EAny
         ELSE LET c == FlatCells(args[1]) IN IfsExpect2(f, c, << <<c, args[2]>> >>)
    [] f = "AVERAGEIF" ->
         IF Len(args) \notin {2, 3} THEN EAny
         ELSE LET c == FlatCells(args[1]) IN IfsExpect2(f, IF Len(args) = 3 THEN FlatCells(args[3]) ELSE c, << <<c, args[2]>> >>)
    [] f \in {"SUMIFS", "AVERAGEIFS", "MAXIFS"} ->
         IF Len(args) < 3 \/ Len(args) % 2 = 0 THEN EAny
         ELSE IfsExpect2(f, FlatCells(args[1]),
                         [j \in 1..((Len(args) - 1) \div 2) |-> <<FlatCells(args[2 * j]), args[2 * j + 1]>>])

(***************************************************************************)
(* C16  real-valued functions: where they are defined                      *)
(***************************************************************************)
(* the argument as a rational, through the coercions the statement names:  *)
(* numbers, numeric text, logicals.  [k |-> "q", q] | "text" | "unspec"    *)
(* text that certainly spells no number: empty or blank, or containing a     *)
(* character that no spelling of a number uses (digits, sign, point,        *)
(* exponent letter, underscore, white space).  Malformed strings over that  *)
(* alphabet ("1e", "--1", "2020-01-01") stay unspecified.                   *)
NumberAlphabet == (48..57) \cup {43, 45, 46, 101, 69, 95, 32, 9, 10, 13}
SurelyNotNumeric(s) == \/ \A i \in 1..Len(s) : s[i] \in {32, 9, 10, 13}
                       \/ \E i \in 1..Len(s) : s[i] \notin NumberAlphabet
(* a float given exactly, as sign and numerator / denominator digit strings (the recorder adds them): [k |-> "f", ...] *)
(* a positional numeral of any length: [+-]digits[.digits] with at least one digit before or after the point *)
LongNumeral(s) ==
  LET body == IF s # <<>> /\ s[1] \in {43, 45} THEN Tail(s) ELSE s
      dots == {i \in 1..Len(body) : body[i] = 46}
  IN /\ Len(body) >= 2 /\ Cardinality(dots) <= 1
     /\ \A i \in 1..Len(body) : body[i] = 46 \/ (body[i] >= 48 /\ body[i] <= 57)
     /\ \E i \in 1..Len(body) : body[i] # 46
LongNegative(s) == s[1] = 45 /\ \E i \in 2..Len(s) : s[i] >= 49 /\ s[i] <= 57
(* functions with a value for every real number, however large or small, that cannot overflow *)
Tame == {"ABS", "ATAN", "ACOT", "TANH", "ASINH", "SIN", "COS", "RADIANS", "DEGREES"}
MathArg(v) ==
  CASE v.t = "num" -> [k |-> "q", q |-> QOf(v)]
    [] v.t = "flt" /\ "nd" \in DOMAIN v -> [k |-> "f", neg |-> v.neg, num |-> BN!BOfDigits(v.nd), den |-> BN!BOfDigits(v.dd)]
    [] v.t = "bool" -> [k |-> "q", q |-> QI(IF v.b THEN 1 ELSE 0)]
    [] v.t = "txt" -> IF NumericText(v.s).ok THEN [k |-> "q", q |-> NumericText(v.s).q]
                      ELSE IF LongNumeral(v.s) THEN [k |-> "long", neg |-> LongNegative(v.s)]     \* numeric text too long for TLC's integers
                      ELSE IF TextIsPlain(v.s) \/ SurelyNotNumeric(v.s) THEN [k |-> "text"] ELSE [k |-> "unspec"]
    [] OTHER -> [k |-> "unspec"]

QPos(x) == x.n > 0
QAbsLe1(x) == AbsI(x.n) <= x.d
Real1 == {"EXP", "SIN", "COS", "TAN", "SINH", "COSH", "TANH", "ASINH", "ATAN", "ACOT", "RADIANS", "DEGREES"}
InDomain1(f, x) ==
  CASE f \in Real1 -> TRUE
    [] f = "SQRT" -> x.n >= 0
    [] f \in {"LN", "LOG10"} -> QPos(x)
    [] f \in {"ASIN", "ACOS"} -> QAbsLe1(x)
    [] f = "ACOSH" -> x.n >= x.d
    [] f = "ATANH" -> AbsI(x.n) < x.d
    [] f = "ACOTH" -> AbsI(x.n) > x.d
    [] f = "COT" -> x.n # 0
(* the same for an exactly given float a = +-num/den (never zero): compared with the bounds of the domain by BigNat *)
InDomainF(f, a) ==
  CASE f \in Real1 -> TRUE
    [] f \in {"SQRT", "LN", "LOG10"} -> ~a.neg
    [] f \in {"ASIN", "ACOS"} -> BN!BLe(a.num, a.den)
    [] f = "ACOSH" -> ~a.neg /\ BN!BLe(a.den, a.num)
    [] f = "ATANH" -> BN!BLt(a.num, a.den)
    [] f = "ACOTH" -> BN!BLt(a.den, a.num)
    [] f = "COT" -> TRUE
FSmall(a) == BN!BLe(a.num, BN!BMulAdd(a.den, 600, 0))
Math1 == Real1 \cup {"SQRT", "LN", "LOG10", "ASIN", "ACOS", "ACOSH", "ATANH", "ACOTH", "COT"}
ArgSmall(x) == AbsI(x.n) <= 600 * x.d            \* keeps EXP, SINH, COSH away from overflow

MathExpect(f, args) ==
  IF f \in Math1
  THEN IF Len(args) # 1 THEN EAny
       ELSE LET a == MathArg(args[1]) IN
            IF a.k = "unspec" THEN EAny
            ELSE IF a.k = "text" THEN EAnyErr
            ELSE IF a.k = "f" THEN (IF ~FSmall(a) THEN EAny ELSE IF InDomainF(f, a) THEN EAnyNum ELSE EAnyErr)
            ELSE IF a.k = "long" THEN (IF f \in Tame \/ (f = "SQRT" /\ ~a.neg) THEN EAnyNum ELSE EAny)
            ELSE IF ~ArgSmall(a.q) THEN EAny
            ELSE IF InDomain1(f, a.q) THEN EAnyNum ELSE EAnyErr
  ELSE IF Len(args) # 2 THEN EAny
  ELSE LET a == MathArg(args[1])
           b == MathArg(args[2])
       IN IF a.k = "unspec" \/ b.k = "unspec" THEN EAny
          ELSE IF a.k = "text" \/ b.k = "text" THEN EAnyErr
          ELSE IF a.k \in {"f", "long"} \/ b.k \in {"f", "long"} THEN EAny
          ELSE IF ~ArgSmall(a.q) \/ ~ArgSmall(b.q) THEN EAny
          ELSE CASE f = "ATAN2" -> IF a.q.n = 0 /\ b.q.n = 0 THEN EErrs({"#DIV/0!"}) ELSE EAnyNum
                 [] f = "LOG" -> IF QPos(a.q) /\ QPos(b.q) /\ ~(b.q.n = b.q.d) THEN EAnyNum ELSE EAnyErr
                 [] f = "POWER" -> IF QPos(a.q) THEN (IF AbsI(b.q.n) <= 40 * b.q.d THEN EAnyNum ELSE EAny)
                                   ELSE IF a.q.n = 0 THEN (IF QPos(b.q) THEN EAnyNum ELSE IF b.q.n = 0 THEN EAny ELSE EAnyErr)
                                   ELSE IF b.q.d = 1 THEN (IF AbsI(b.q.n) <= 40 THEN EAnyNum ELSE EAny) ELSE EAnyErr

(***************************************************************************)
(* C15  text                                                               *)
(***************************************************************************)
ERel(name, s) == [k |-> "rel", name |-> name, s |-> s]      \* output related to the input text s

(* count argument: a non-negative integer, or omitted (default 1) *)
CountOf(args, i, dflt) == IF Len(args) < i THEN dflt ELSE IF IsIntV(args[i]) THEN args[i].n ELSE -999999

TextExpect(f, args) ==
  IF args = <<>> \/ args[1].t # "txt" THEN EAny
  ELSE LET s == args[1].s IN
  CASE f \in {"LEFT", "RIGHT"} ->
         IF Len(args) > 2 THEN EAny
         ELSE LET n == CountOf(args, 2, 1) IN
              IF n = -999999 THEN EAny
              ELSE IF n < 0 THEN EErrs({"#VALUE!"})
              ELSE EVal(Txt(IF f = "LEFT" THEN Left(s, n) ELSE Right(s, n)))
    [] f = "MID" ->
         IF Len(args) # 3 \/ ~IsIntV(args[2]) \/ ~IsIntV(args[3]) THEN EAny
         ELSE IF args[3].n < 0 THEN EErrs({"#VALUE!"})
         ELSE IF args[2].n < 1 THEN EAny
         ELSE EVal(Txt(Mid(s, args[2].n, args[3].n)))
    [] f = "LEN" -> IF Len(args) = 1 THEN EVal(IntV(Len(s))) ELSE EAny
    [] f = "UPPER" -> IF Len(args) = 1 THEN ERel("upper", s) ELSE EAny
    [] f = "LOWER" -> IF Len(args) = 1 THEN ERel("lower", s) ELSE EAny
    [] f = "PROPER" -> IF Len(args) = 1 THEN ERel("proper", s) ELSE EAny
    [] f = "TRIM" -> IF Len(args) = 1 THEN ERel("trim", s) ELSE EAny
    [] f = "CLEAN" -> IF Len(args) = 1 THEN ERel("clean", s) ELSE EAny
    [] f = "SUBSTITUTE" ->
         IF Len(args) \notin {3, 4} \/ args[2].t # "txt" \/ args[3].t # "txt" THEN EAny
         ELSE LET old == args[2].s
                  new == args[3].s
              IN IF old = <<>> \/ SelfOverlapping(old) THEN EAny
                 ELSE IF Len(args) = 3 THEN EVal(Txt(SubstAll(s, old, new)))
                 ELSE IF ~IsIntV(args[4]) \/ args[4].n < 1 THEN EAny
                 ELSE EVal(Txt(SubstNth(s, old, new, args[4].n)))

(* items of CONCATENATE: text, integers, blanks (as nothing), arrays of those *)
JoinItemOK(v) == v.t \in {"txt", "blank"} \/ (v.t = "num" /\ v.d = 1)
ConcatenateExpect(args) ==
  LET xs == Flat(args) IN
  IF xs = <<>> THEN EAny
  ELSE IF \E i \in 1..Len(xs) : IsErr(xs[i]) /\ \A j \in 1..(i - 1) : JoinItemOK(xs[j]) THEN EVal(FirstErr(xs))
  ELSE IF \A i \in 1..Len(xs) : JoinItemOK(xs[i]) THEN EVal(Txt(JoinSeq([i \in 1..Len(xs) |-> TextOf(xs[i])], <<>>)))
  ELSE EAny

(* TEXTJOIN(delimiter, ignore_empty, items...): items text and blanks *)
TextJoinExpect(args) ==
  IF Len(args) < 3 \/ args[1].t # "txt" \/ args[2].t # "bool" THEN EAny
  ELSE LET xs == Flat(SubSeq(args, 3, Len(args)))
       IN IF \E i \in 1..Len(xs) : xs[i].t \notin {"txt", "blank"} THEN EAny
          ELSE IF args[2].b /\ \E i \in 1..Len(xs) : xs[i].t = "txt" /\ xs[i].s = <<>>
          THEN \* is empty text "a blank"?  not stated: it is kept like any text, or skipped like a blank - nothing else
               LET texts == SelectSeq(xs, LAMBDA v : v.t = "txt")
                   nonempty == SelectSeq(texts, LAMBDA v : v.s # <<>>)
               IN EAlts(<<EVal(Txt(JoinSeq([i \in 1..Len(texts) |-> TextOf(texts[i])], args[1].s))),
                          EVal(Txt(JoinSeq([i \in 1..Len(nonempty) |-> TextOf(nonempty[i])], args[1].s)))>>)
          ELSE LET kept == IF args[2].b THEN SelectSeq(xs, LAMBDA v : v.t = "txt") ELSE xs
               IN EVal(Txt(JoinSeq([i \in 1..Len(kept) |-> TextOf(kept[i])], args[1].s)))

(***************************************************************************)
(* dispatcher                                                              *)
(***************************************************************************)
BuiltinExpect(f, args) ==
  CASE f \in {"AND", "OR", "XOR"} -> Junction(f, args)
    [] f = "NOT" -> IF Len(args) # 1 THEN EAny
                    ELSE IF TruthDefined(args[1]) THEN ETruth(~Truth(args[1])) ELSE EAny
    [] f = "IF" -> IfExpect(args)
    [] f = "IFS" -> IfsExpect(args)
    [] f = "SWITCH" -> IF Len(args) < 3 \/ IsUnspec(args[1]) \/ IsErr(args[1]) THEN EAny
                       ELSE SwitchExpect(args[1], Tail(args))
    [] f \in {"ISERROR", "ISERR", "ISNA", "ISNUMBER", "ISTEXT", "ISNONTEXT", "ISLOGICAL", "ISBLANK"} ->
         IF Len(args) = 1 THEN Pred(f, args[1]) ELSE EAny
    [] f \in {"ISEVEN", "ISODD"} -> IF Len(args) = 1 THEN Parity(f, args[1]) ELSE EAny
    [] f = "IFERROR" -> IF Len(args) # 2 \/ IsUnspec(args[1]) THEN EAny
                        ELSE IF IsErr(args[1]) THEN OfV(args[2]) ELSE OfV(args[1])
    [] f = "IFNA" -> IF Len(args) # 2 \/ IsUnspec(args[1]) THEN EAny
                     ELSE IF IsErr(args[1]) /\ args[1].c = "#N/A" THEN OfV(args[2]) ELSE OfV(args[1])
    [] f = "ERROR.TYPE" -> IF Len(args) = 1 /\ IsErr(args[1])
                           THEN (IF args[1].c = "#ERROR!" THEN EAlts(<<EAnyNum, EVal(Err("#N/A"))>>)   \* (no spreadsheet number exists for it)
                                 ELSE EAnyNum)
                           ELSE EAny
    [] f = "NA" -> IF args = <<>> THEN EVal(Err("#N/A")) ELSE EAny
    [] f = "TRUE" -> IF args = <<>> THEN EVal(Bool(TRUE)) ELSE EAny
    [] f = "FALSE" -> IF args = <<>> THEN EVal(Bool(FALSE)) ELSE EAny
    [] f \in {"SUM", "COUNT", "AVERAGE", "MIN", "MAX", "MEDIAN", "MODE", "MODE.SNGL", "PRODUCT", "VAR", "VAR.S", "VARP", "VAR.P",
               "AVEDEV", "HARMEAN"} -> AggExpect(f, args)
    [] f \in Math1 \cup {"ATAN2", "LOG", "POWER"} -> MathExpect(f, args)
    [] f = "LARGE" -> LargeExpect(args)
    [] f = "SLOPE" -> SlopeExpect(args)
    [] f \in {"SUMIF", "COUNTIF", "AVERAGEIF", "SUMIFS", "AVERAGEIFS", "MAXIFS"} -> CriteriaExpect(f, args)
    [] f = "ABS" -> AbsExpect(args)
    [] f \in {"LEFT", "RIGHT", "MID", "LEN", "UPPER", "LOWER", "PROPER", "TRIM", "CLEAN", "SUBSTITUTE"} -> TextExpect(f, args)
    [] f \in {"CONCATENATE", "CONCAT"} -> ConcatenateExpect(args)
    [] f = "TEXTJOIN" -> TextJoinExpect(args)
    [] f = "CHAR" -> IF Len(args) = 1 /\ IsIntV(args[1]) /\ args[1].n >= 1 /\ args[1].n <= 55295
                     THEN EVal(Txt(<<args[1].n>>)) ELSE EAny
    [] f = "CODE" -> IF Len(args) = 1 /\ args[1].t = "txt" /\ Len(args[1].s) = 1 THEN EVal(IntV(args[1].s[1])) ELSE EAny
    [] f = "CHOOSE" -> ChooseExpect(args)
    [] f = "INDEX" -> IndexExpect(args)
    [] f = "MATCH" -> MatchExpect(args)
    [] OTHER -> EAny

(* Matches for the expectation kinds introduced here                       *)
RECURSIVE MatchesF(_, _)
MatchesF(e, y) ==
  CASE e.k = "alts" -> \E i \in 1..Len(e.es) : MatchesF(e.es[i], y)
    [] e.k = "rel" -> y.t = "txt" /\
         (CASE e.name = "upper" -> UpperRel(e.s, y.s) [] e.name = "lower" -> LowerRel(e.s, y.s)
            [] e.name = "proper" -> ProperRel(e.s, y.s) [] e.name = "trim" -> TrimRel(e.s, y.s)
            [] e.name = "clean" -> CleanRel(e.s, y.s))
    [] e.k = "posin" -> y.t = "num" /\ y.d = 1 /\ y.n \in e.ps
    [] e.k = "truth" -> (y.t = "bool" /\ y.b = e.b) \/ (y.t = "num" /\ y.d = 1 /\ y.n = (IF e.b THEN 1 ELSE 0))
    [] e.k = "anynum" -> y.t \in {"num", "flt", "big"} /\ (y.t = "flt" => y.r \notin {"nan", "inf", "-inf"})
    [] OTHER -> Matches(e, y)

RECURSIVE MatchesX(_, _)
MatchesX(e, y) ==
  IF e.k = "arr" THEN y.t = "arr" /\ Len(y.a) = Len(e.a) /\ \A i \in 1..Len(e.a) : MatchesX(e.a[i], y.a[i])
  ELSE MatchesF(e, y)

OutcomeMatchesX(e, out) ==
  /\ MatchesX(e, TopValue(out))
  /\ (out.err # "" => out.res.t = "blank")
  /\ (out.err = "" => out.res.t # "err")       \* an error that reaches the top is reported under error, never as the result
=============================================================================
