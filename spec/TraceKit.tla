------------------------------ MODULE TraceKit ------------------------------
(* Stepping machinery shared by the functional trace specifications: the    *)
(* observation log (ndjson, one observation per line) is cut into chunks,   *)
(* one initial state per chunk, so that TLC's workers validate in parallel. *)
(* The extending module supplies an invariant that prints one total verdict *)
(* per observation.                                                         *)
EXTENDS Integers, Sequences, TLC, Json, IOUtils

Obs == ndJsonDeserialize(IOEnv.TRACE_FILE)
NChunks == 64

VARIABLES ch, i
kvars == <<ch, i>>

ChunkLo(c) == ((c - 1) * Len(Obs)) \div NChunks + 1
ChunkHi(c) == (c * Len(Obs)) \div NChunks

KInit == /\ ch \in {c \in 1..NChunks : ChunkLo(c) <= ChunkHi(c)}
         /\ i = ChunkLo(ch)
KNext == /\ i < ChunkHi(ch)
         /\ i' = i + 1
         /\ ch' = ch
KSpec == KInit /\ [][KNext]_kvars

O == Obs[i]
=============================================================================
