------------------------------ MODULE TraceKit ------------------------------
(* Stepping machinery shared by the functional trace specifications: the    *)
(* observation log (ndjson, one observation per line) is cut into chunks,   *)
(* one initial state per chunk, so that TLC's workers validate in parallel. *)
(* The extending module supplies an invariant that prints one total verdict *)
(* per observation.                                                         *)
EXTENDS Integers, Sequences, TLC, Json, IOUtils

Obs == ndJsonDeserialize(IOEnv.TRACE_FILE)
NChunks == 64

VARIABLES kch, kpos
kvars == <<kch, kpos>>

ChunkLo(c) == ((c - 1) * Len(Obs)) \div NChunks + 1
ChunkHi(c) == (c * Len(Obs)) \div NChunks

KInit == /\ kch \in {c \in 1..NChunks : ChunkLo(c) <= ChunkHi(c)}
         /\ kpos = ChunkLo(kch)
KNext == /\ kpos < ChunkHi(kch)
         /\ kpos' = kpos + 1
         /\ kch' = kch
KSpec == KInit /\ [][KNext]_kvars

O == Obs[kpos]
=============================================================================
