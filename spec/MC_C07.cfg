SPECIFICATION Spec
INVARIANT AllDefined
INVARIANT Trichotomy
INVARIANT Derived
INVARIANT Converse
INVARIANT Transitive
INVARIANT RankOrder
INVARIANT BlankRule
INVARIANT ExportInv
CHECK_DEADLOCK FALSE
