------------------------------ MODULE XLDateFn ------------------------------
(***************************************************************************)
(* Date and time functions over the proleptic Gregorian calendar (C13,     *)
(* C14): serials, parts, DAYS, DATEDIF, WEEKDAY, EDATE - integer           *)
(* arithmetic only, built on XLDate.                                       *)
(***************************************************************************)
EXTENDS XLDate

MinI(a, b) == IF a <= b THEN a ELSE b

(* DATE(y, m, d): years 0..1899 mean 1900 + year *)
DateYear(y) == IF y < 1900 THEN y + 1900 ELSE y

(* civil comparison *)
CivLe(a, b) == <<a.y, a.mo, a.d>> = <<b.y, b.mo, b.d>> \/ a.y < b.y \/ (a.y = b.y /\ (a.mo < b.mo \/ (a.mo = b.mo /\ a.d < b.d)))

(* DATEDIF for start <= end (whole dates) *)
DifD(a, b) == DayNumber(b.y, b.mo, b.d) - DayNumber(a.y, a.mo, a.d)
DifM(a, b) == (b.y - a.y) * 12 + (b.mo - a.mo) - (IF b.d < a.d THEN 1 ELSE 0)
DifY(a, b) == b.y - a.y - (IF b.mo < a.mo \/ (b.mo = a.mo /\ b.d < a.d) THEN 1 ELSE 0)
DifYM(a, b) == DifM(a, b) % 12

(* WEEKDAY: type 1 Sunday=1..Saturday=7, type 2 Monday=1..Sunday=7, type 3 Monday=0..Sunday=6 *)
Weekday(n, type) == LET m0 == WeekdayMon0(n) IN
  CASE type = 1 -> ((m0 + 1) % 7) + 1
    [] type = 2 -> m0 + 1
    [] type = 3 -> m0

(* EDATE: k whole months later, day of month kept, clamped to the month's length.   *)
(* Result: [ok, y, mo, d]; not ok = outside 1900..9999 (#NUM!)                      *)
EDate(a, k) ==
  LET total == a.y * 12 + (a.mo - 1) + k
      ny == total \div 12
      nm == (total % 12) + 1
  IN IF ny < 1900 \/ ny > 9999 THEN [ok |-> FALSE, y |-> 0, mo |-> 0, d |-> 0]
     ELSE [ok |-> TRUE, y |-> ny, mo |-> nm, d |-> MinI(a.d, DaysInMonth(ny, nm))]
=============================================================================
