SPECIFICATION Spec
CONSTANTS
  H = 4
  Parsers = {"p1", "p2"}
  Builtins = {"SUM", "ABS"}
INVARIANT VariableLaw
INVARIANT Predefined
INVARIANT UnknownIsName
INVARIANT CustomShadowsBuiltin
INVARIANT BuiltinWhenNotShadowed
INVARIANT ExportInv
PROPERTY BindingsPrivate
CHECK_DEADLOCK FALSE
