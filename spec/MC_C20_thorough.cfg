SPECIFICATION Spec
CONSTANTS
  Names = {"x", "xy"}
  Cbs = {1, 2}
  OnceGuard = TRUE
  H = 4
  MaxScripted = 1
  MaxScriptLen = 1
  MaxDepth = 1
  Export = TRUE
INVARIANT OnceAtMostOnce
INVARIANT NameIsolation
INVARIANT OrderedDelivery
INVARIANT NothingDropped
INVARIANT ExportInv
PROPERTY OffExact
PROPERTY SnapshotStable
CHECK_DEADLOCK FALSE
