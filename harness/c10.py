# -*- coding: utf-8 -*-
"""C10 - reference events.  MC_C10 enumerates formula trees over cell/range/variable/call references
with listener setter scripts, checks the event laws on the spec and exports the cases; each is run
on a real parser with recording listeners; Trace_Eval compares events, custom-function calls and
the outcome with XLEval.  C2S: random labels over the whole sheet in random trees."""
import json
import os
import random

from . import core
from . import formula as F
from .values import enc

PROBE = 'ZZ77+SUM(ZY1:ZZ2)+TRUE+ABS(1)'
ERRV = lambda c: {'t': 'err', 'c': c}       # an error value handed to the setter is the value of the reference, like any other
SETPOOL = [[], [None], [0], [False], [''], [5], [5, None], [None, 0], [5, 0], ['', False, None], [[1, 2]], [2.5],
           [ERRV('#DIV/0!')], [ERRV('#N/A')], [3, ERRV('#VALUE!')], [ERRV('#REF!'), None]]
# values no formula can compute, handed to the setter of a function-call event: they are the value of the call all the same
FNPOOL = SETPOOL + [[{'t': 'flt', 'r': 'inf'}], [{'t': 'flt', 'r': 'nan'}], [{'t': 'flt', 'r': '-inf'}, None], [5, {'t': 'flt', 'r': 'inf'}]]


def may_be_array(n, env):
    k = n['k']
    if k in ('arr', 'range'):
        return True
    if k == 'cell':
        key = F.cps(F.plain_key(F.S(n['s'])))
        return any(v['t'] == 'arr' for s in env['cellsets'] if s['key'] == key for v in s['vals'])
    if k == 'var':
        return env['vars'].get(n['name'], {'t': ''})['t'] == 'arr' or \
            any(v['t'] == 'arr' for s in env['varsets'] if s['key'] == n['name'] for v in s['vals'])
    if k == 'call':
        return n['f'] not in ('SUM', 'COUNT') and (
            env['funcs'].get(n['f'], {}).get('v', {'t': ''})['t'] == 'arr' or env['funcs'].get(n['f'], {}).get('mode') == 'arg' or
            any(v['t'] == 'arr' for s in env['fnsets'] if s['key'] == n['f'] for v in s['vals']))
    if k in ('paren', 'neg'):
        return may_be_array(n['e'], env)
    if k == 'bin':
        return may_be_array(n['l'], env) or may_be_array(n['r'], env)
    return False


def array_meets_array(n, env):
    """some operator may combine two arrays: that arithmetic (and the recorded C06 finding about nested one-element
    arrays) is not this property's subject, the value of such a formula is not judged here"""
    if n['k'] == 'bin' and may_be_array(n['l'], env) and may_be_array(n['r'], env):
        return True
    return any(array_meets_array(x, env) for f in ('l', 'r', 'e') if isinstance(n.get(f), dict) for x in [n[f]]) or \
        any(array_meets_array(x, env) for f in ('args', 'items') for x in n.get(f, ()))


def observe(lib, cases):
    obs = []
    for c in cases:
        h = F.Harnessed(lib, c['env'])
        text = F.render(c['ast'])
        if c.get('unsub'):
            # a host object's methods were subscribed and unsubscribed again before the evaluation: as if they never had been
            class Gone(object):
                def cell(self, cell, setter):
                    setter(424242)

                def rng(self, a, b, setter):
                    setter([[424242]])

                def var(self, name, setter):
                    setter(424242)

                def fn(self, name, args, setter):
                    setter(424242)
            g = Gone()
            for ev, m, how in (('callCellValue', 'cell', 'on'), ('callRangeValue', 'rng', 'once'), ('callVariable', 'var', 'on'),
                               ('callFunction', 'fn', 'once')):
                getattr(h.p, how)(ev, getattr(g, m))
            for ev, m in (('callCellValue', 'cell'), ('callRangeValue', 'rng'), ('callVariable', 'var'), ('callFunction', 'fn')):
                h.p.off(ev, getattr(g, m))
        if c.get('prefail'):
            # earlier on this parser the listeners failed (after handing over their values) on this very formula and on each of
            # its references alone: nothing of that is left when the formula is evaluated now
            def boom(hh, payload):
                raise RuntimeError('listener failed')
            h.hooks = {k: boom for k in ('cell:post', 'range:post', 'var:post', 'fn:post')}
            h.frames.append([[], []])
            try:
                h.p.parse(text)
                for r in refs_of(c['ast'], []):
                    h.p.parse(F.render(r))
            finally:
                h.frames.pop()
            h.hooks = {}
        if c.get('nest'):
            # every listener, after handing its values to the setter, evaluates another formula on the same
            # parser (a sheet following a formula cell, a validation rule): "whatever the listeners do"
            def nested(hh, payload):
                saved, hh.hooks = hh.hooks, {}
                try:
                    hh.parse(PROBE)
                finally:
                    hh.hooks = saved
            h.hooks = {k: nested for k in ('cell:post', 'range:post', 'var:post', 'fn:post')}
        o = h.parse(text, again=len(obs) % 4 == 3)
        o.update({'id': len(obs) + 1, 'ast': c['ast'], 'env': c['env'], 'formula': text, 'nest': bool(c.get('nest')),
                  'unsub': bool(c.get('unsub')), 'prefail': bool(c.get('prefail')),
                  'checks': ['events', 'calls'] if array_meets_array(c['ast'], c['env']) else ['value', 'events', 'calls']})
        obs.append(o)
    return obs


def col_label(i):
    s = ''
    i += 1
    while i > 0:
        i, r = divmod(i - 1, 26)
        s = chr(65 + r) + s
    return s


def rand_label(rng):
    c = col_label(rng.choice([rng.randrange(0, 30), rng.randrange(0, 16384), rng.randrange(16384, 500000)]))
    c = ''.join(rng.choice([x, x.lower()]) for x in c)
    r = rng.choice([rng.randrange(1, 12), rng.randrange(1, 1048577), 1048576, rng.randrange(1, 10 ** 8)])
    return rng.choice(['', '$']) + c + rng.choice(['', '$']) + str(r)


def rand_ref(rng):
    k = rng.random()
    if k < 0.4:
        return F.cell(rand_label(rng))
    if k < 0.7:
        return F.rng(rand_label(rng), rand_label(rng))
    if k < 0.8:
        # one-cell and one-row/one-column ranges: corners that coincide, written alike or not
        a = rand_label(rng)
        plain = a.replace('$', '')
        b = rng.choice([a, a.lower(), a.upper(), plain, '$' + plain if not plain.startswith('$') else plain])
        return F.rng(a, b)
    return F.var(rng.choice(['va', 'vb', 'some_name', 'x_1']))


def rand_tree(rng, depth=0):
    k = rng.random()
    if depth >= 3 or k < 0.35:
        return rand_ref(rng)
    if k < 0.6:
        def P(x):   # explicit parentheses keep the written formula and the tree in step (C04 owns precedence)
            return F.paren(x) if x['k'] in ('bin', 'neg') else x
        return F.binop(rng.choice(['+', '-', '*', '&', '=', '<']), P(rand_tree(rng, depth + 1)), P(rand_tree(rng, depth + 1)))
    if k < 0.7:
        return F.paren(rand_tree(rng, depth + 1))
    if k < 0.75:
        return F.neg(F.paren(rand_tree(rng, depth + 1)))
    if k < 0.9:
        return F.call(rng.choice(['REC', 'REC', 'SUM', 'COUNT', 'ISERROR', 'IFERROR', 'ISNA']),
                      *[rand_tree(rng, depth + 1) for _ in range(rng.randint(0, 3))])
    return F.arr(*[rand_tree(rng, depth + 1) for _ in range(rng.randint(1, 3))])


def refs_of(n, out):
    k = n['k']
    if k in ('cell', 'range', 'var'):
        out.append(n)
    for f in ('l', 'r', 'e'):
        if f in n and isinstance(n[f], dict):
            refs_of(n[f], out)
    for f in ('args', 'items'):
        for x in n.get(f, ()):
            refs_of(x, out)
    return out


def rand_case(rng):
    ast = rand_tree(rng)
    env = F.empty_env()
    env['vars'] = {'va': enc(3), 'vb': enc('qq'), 'some_name': enc(2.5), 'x_1': enc(True)}
    env['funcs'] = {'REC': {'mode': 'const', 'v': enc(7), 'i': 0}}
    for r in refs_of(ast, []):
        if rng.random() < 0.6:
            vals = [v if isinstance(v, dict) else enc(v) for v in rng.choice(SETPOOL)]
            if r['k'] == 'cell':
                env['cellsets'].append({'key': F.cps(F.plain_key(F.S(r['s']))), 'vals': vals})
            elif r['k'] == 'var':
                env['varsets'].append({'key': r['name'], 'vals': vals})
            # range keys are normalised by the spec; the listener keys ranges by what it receives,
            # so random range setters are attached through the written corners when already normalised
    if rng.random() < 0.3:
        env['fnsets'].append({'key': 'REC', 'vals': [v if isinstance(v, dict) else enc(v) for v in rng.choice(FNPOOL)]})
    return {'ast': ast, 'env': env}


def main(tier, replay=None):
    run = core.Run('C10', tier, keep_replays=bool(replay))
    lib = core.load_library()
    names, bconst = core.builtins_constant()
    consts = {'Builtins': bconst}
    run.rule = ('one observation = one formula tree over cell/range/variable/call references evaluated with '
                'recording listeners; distinct by (tree, environment); non-trivial = at least one reference')
    run.assumptions = ['listeners return normally (a third of them after evaluating another formula on the same parser)', 'labels have positive rows without leading zeros']
    if replay:
        c = json.load(open(replay))['case']
        obs = observe(lib, [{'ast': c['ast'], 'env': c['env'], 'nest': c.get('nest'), 'unsub': c.get('unsub'), 'prefail': c.get('prefail')}])
        v = core.validate_obs(run, 'Trace_Eval', obs, 'replay', consts)
        core.tally(run, obs, v, 'c10', key=lambda o: o['formula'] + json.dumps(o['env'], sort_keys=True))
        return run.finish()
    quick = tier == 'quick'
    cf = os.path.join(core.scratch(), 'c10_cases.ndjson')
    cfgp = os.path.join(core.scratch(), 'MC_C10.cfg')
    base = open(os.path.join(core.SPEC, 'MC_C10_quick.cfg' if quick else 'MC_C10_thorough.cfg')).read()
    open(cfgp, 'w').write(base)
    r = core.run_tlc('MC_C10.tla', cfgp, env={'CASE_FILE': cf})
    run.add_tlc('MC_C10', r)
    cases = core.read_cases(cf)
    run.extra['tlc_cases'] = len(cases)
    rng = random.Random(run.seed)
    cases += [rand_case(rng) for _ in range(4000 if quick else 80000)]
    for i, c in enumerate(cases):
        c['nest'] = i % 3 == 1
        c['unsub'] = i % 5 == 2
        c['prefail'] = i % 7 == 3
    obs = observe(lib, cases)
    run.extra['with_nested_evaluation_in_listeners'] = sum(1 for o in obs if o['nest'])
    CH = 25000
    for k in range(0, len(obs), CH):
        part = obs[k:k + CH]
        v = core.validate_obs(run, 'Trace_Eval', part, 'p%d' % (k // CH), consts)
        core.tally(run, part, v, 'c10', key=lambda o: o['formula'] + json.dumps(o['env'], sort_keys=True))
    run.exhaustive = True
    run.samples = [{k: o[k] for k in ('formula', 'env', 'out', 'events')} for o in (obs[3], obs[len(obs) // 2], obs[-1])]
    return run.finish()
