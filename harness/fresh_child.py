# -*- coding: utf-8 -*-
"""A fresh interpreter that evaluates a list of (parser name, formula) steps in order and prints the outcomes.
Used to compare what a parser answers in a process where other parsers have been busy with what it answers in a
process where nothing else ever happened."""
import json
import sys

sys.path.insert(0, sys.argv[1])          # scratch copy of the tree under test
sys.path.insert(0, sys.argv[2])          # /verif
steps = json.loads(sys.argv[3])
import hotxlfp                            # noqa
from harness.values import outcome       # noqa

parsers = {}
out = []
for name, f in steps:
    if name not in parsers:
        parsers[name] = hotxlfp.Parser()
        parsers[name].set_variable('va', 3)
        if name == 'q1':
            # the busy neighbour has functions of its own whose names differ from documented ones only in case
            parsers[name].set_function('Sum', lambda *a: 777)
            parsers[name].set_function('abs', lambda *a: -1)
            parsers[name].set_function('Len', lambda *a: 'q1')
    out.append(outcome(parsers[name].parse(f)))
print(json.dumps(out))
