# -*- coding: utf-8 -*-
"""C19 - cell labels <-> indices.  MC_C19 proves the bijection/order/round trips on the spec for
every column index in the bound; the real helper functions are swept over the same indices (and
rows, written labels with all $/case patterns, near-miss non-labels, random strings) and every
answer is judged by TLC (Trace_C19)."""
import json
import random

from . import core

NEAR = ['', 'A', '1', '$', 'A$', '1A', 'A1B', 'A-1', 'Ä1', 'A 1', ' A1', 'A1 ', '$$A1', 'A$$1', 'A1$',
        'A1\n', '\nA1', 'A1.0', 'A+1', 'a', '$a', '$1', 'A١', 'A1١', '1$A', '$A$', 'A$1$', 'R1C1:', 'A1:B2',
        'A!1', '#A1', 'A_1', 'Α1', 'A²', 'ＡＡ1', 'A１']


def cps(s):
    return [ord(c) for c in s]


def main(tier, replay=None):
    run = core.Run('C19', tier, keep_replays=bool(replay))
    core.load_library()
    from hotxlfp.helper import cell
    run.rule = ('observations: column index -> label -> index (both cases); row index -> label -> index; written '
                'label -> extract_label -> to_label; non-label strings -> extract_label; distinct by input; '
                'non-trivial = every input except index 0')
    run.assumptions = ['label-shaped strings whose row is 0 or zero-padded (A0, A01) are neither required to '
                       'decompose nor to decompose to nothing']
    quick = tier == 'quick'
    rng = random.Random(run.seed)

    def col_obs(i):
        lab = cell.column_index_to_label(i)
        return {'kind': 'col', 'in': {'i': i}, 'out': {'label': cps(lab), 'back': cell.column_label_to_index(lab),
                                                      'backlower': cell.column_label_to_index(lab.lower())}}

    def row_obs(i):
        lab = cell.row_index_to_label(i)
        return {'kind': 'row', 'in': {'i': i}, 'out': {'label': cps(lab), 'back': cell.row_label_to_index(lab)}}

    class HostLabel(str):
        """a label as hosts hold it: text of a subclass of str (a markup-safe string, an enum member, an XML smart string)"""

    def ext_obs(s, host=False):
        plain = s
        if host:
            s = HostLabel(s)
        first = cell.extract_label(s)
        if isinstance(first, list):
            # the caller does what it likes with the list it was given; the next decomposition is a fresh one
            first.reverse()
            first.append(None)
            del first[:1]
        r = cell.extract_label(s)
        out = {'n': len(r), 'ri': 0, 'ci': 0, 'rabs': False, 'cabs': False, 're': []}
        if len(r) == 2 and not all(hasattr(x, 'index') and hasattr(x, 'is_absolute') for x in r):
            out['ri'] = out['ci'] = -999        # two things, but not a row part and a column part
        elif len(r) == 2:
            row, col = r
            out.update(ri=row.index, ci=col.index, rabs=bool(row.is_absolute), cabs=bool(col.is_absolute),
                       re=cps(cell.to_label(row, col)))
            if not (isinstance(row.index, int) and isinstance(col.index, int) and abs(row.index) < 2 ** 31):
                out['ri'] = -999
        return {'kind': 'ext', 'in': {'s': cps(plain), 'host': bool(host)}, 'out': out}

    if replay:
        c = json.load(open(replay))['case']
        k = c['kind']
        o = col_obs(c['in']['i']) if k == 'col' else row_obs(c['in']['i']) if k == 'row' else \
            ext_obs(''.join(chr(x) for x in c['in']['s']), c['in'].get('host', False))
        o['id'] = 1
        v = core.validate_obs(run, 'Trace_C19', [o], 'replay')
        core.tally(run, [o], v, 'c19')
        return run.finish()

    ncols = 18278 if quick else 475254
    r = core.run_tlc('MC_C19.tla', 'MC_C19_quick.cfg' if quick else 'MC_C19_thorough.cfg')
    run.add_tlc('MC_C19', r)
    obs = [col_obs(i) for i in range(ncols)]
    if quick:   # length boundaries and a seeded sample of 4- and 5-letter labels
        obs += [col_obs(i) for i in (18277, 18278, 18279, 475253, 475254, 475255, 16383, 16384)]
        obs += [col_obs(rng.randrange(18278, 12356630)) for _ in range(3000)]
    else:
        obs += [col_obs(rng.randrange(475254, 12356630)) for _ in range(20000)]
    rows = set([0, 1, 8, 9, 10, 98, 99, 100, 998, 999, 1000, 9999, 99999, 999999, 1048574, 1048575, 1048576,
                9999999, 99999999, 999999999, 2 ** 31 - 3])
    rows |= set(rng.randrange(0, 2 ** 31 - 2) for _ in range(2000 if quick else 40000))
    rows |= set(range(0, 3000 if quick else 120000))
    obs += [row_obs(i) for i in sorted(rows)]
    labs = []
    for _ in range(6000 if quick else 120000):
        ci = rng.choice([rng.randrange(0, 702), rng.randrange(0, 16384), rng.randrange(0, 475254)])
        col = cell.column_index_to_label(ci)   # only used to build a written label; judged by TLC
        col = ''.join(rng.choice([c.lower(), c]) for c in col)
        rown = rng.choice([rng.randrange(1, 100), rng.randrange(1, 1048577), rng.randrange(1, 2 ** 31 - 1)])
        labs.append(rng.choice(['', '$']) + col + rng.choice(['', '$']) + str(rown))
    for L in ('A', 'Z', 'AA', 'AZ', 'ZZ', 'AAA', 'XFD', 'xfd', 'ZZZZ'):
        for rw in ('1', '9', '10', '1048576', '1048577', '2147483646'):
            for ca in ('', '$'):
                for ra in ('', '$'):
                    labs.append(ca + L + ra + rw)
    # labels that are also the names of supported functions (LOG10, ATAN2, ...), in every marker pattern and case
    import re as _re
    for name in core.builtins_constant()[0]:
        m = _re.match(r'^([A-Za-z]+)([1-9][0-9]*)$', name)
        if m:
            for ca in ('', '$'):
                for ra in ('', '$'):
                    labs += [ca + m.group(1) + ra + m.group(2), ca + m.group(1).lower() + ra + m.group(2)]
    obs += [ext_obs(s) for s in labs]
    obs += [ext_obs(s, host=True) for s in labs[::3]]
    non = list(NEAR)
    alphabet = 'A1$a0 :.-b9Z\n'
    for _ in range(4000 if quick else 100000):
        non.append(''.join(rng.choice(alphabet) for _ in range(rng.randint(0, 6))))
    # a real label with one character replaced by, or one inserted from, characters that sit next to the letters and
    # digits in ASCII or turn into them under case folding / digit parsing
    odd = list('[\\]^_`{|}@~/:;?!#%&*+=<>,."\'') + ['\u00df', '\u017f', '\ufb01', '\u0130', '\u0131', '\u212a', '\uff21', '\uff11',
                                                    '\u0663', '\u00b2', '\u0410', '\u03a9', '\u00e9', '\u2460', '\x00', '\x0b', '\u00a0']
    for _ in range(3000 if quick else 60000):
        base = rng.choice(labs)
        i = rng.randrange(len(base) + 1)
        ch = rng.choice(odd)
        non.append(base[:i] + ch + base[i + (rng.random() < 0.5):])
    obs += [ext_obs(s) for s in non]
    obs += [ext_obs(s, host=True) for s in non[::5]]
    for n, o in enumerate(obs, 1):
        o['id'] = n
    CH = 80000
    for k in range(0, len(obs), CH):
        part = obs[k:k + CH]
        v = core.validate_obs(run, 'Trace_C19', part, 'p%d' % (k // CH))
        core.tally(run, part, v, 'c19', key=lambda o: o['kind'] + json.dumps(o['in']))
    run.exhaustive = True
    run.extra['column_indices_swept'] = ncols
    run.samples = [obs[27], obs[ncols + 5], obs[-1], obs[-len(non) - 3]]
    return run.finish()
