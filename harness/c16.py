# -*- coding: utf-8 -*-
"""C16 - real-valued math and PV.  TLA+ has no transcendental functions, so the property is decided in
two parts: (1) WHERE each function is defined (domain predicates of XLFuncs on exact rationals,
coercion of numeric text and logicals, errors for other text) - MC_C16 enumerates a boundary grid and
every case is replayed (Trace_Eval: a number inside the domain, an error outside); (2) WHAT the
values are - through the defining identities, each evaluated as one formula by the library and its
result compared by TLC with the exact constant (1, 0, ...) to within 1e-9: every function occurs in
at least two identities.  PV through the annuity equation; RAND / RANDBETWEEN through their ranges."""
import json
import math
import os
import random
from fractions import Fraction

from . import core, suite, fncases, values
from . import formula as F
from .values import enc

# identities: (name, formula over x [, y], expected constant, domain predicate on the sampled reals)
ID1 = [
    ('sin2+cos2', 'SIN(x)*SIN(x)+COS(x)*COS(x)', 1, lambda x: True),
    ('tan=sin/cos', 'TAN(x)*COS(x)/SIN(x)', 1, lambda x: abs(math.sin(x)) > 1e-3 and abs(math.cos(x)) > 1e-3),
    ('cot*tan', 'COT(x)*TAN(x)', 1, lambda x: abs(math.sin(x)) > 1e-3 and abs(math.cos(x)) > 1e-3),
    ('exp(ln)', 'EXP(LN(x))/x', 1, lambda x: 1e-6 < x < 1e6),
    ('ln(exp)', 'LN(EXP(x))-x', 0, lambda x: abs(x) < 50),
    ('log10', 'LOG10(x)*LN(10)/LN(x)', 1, lambda x: x > 0 and abs(x - 1) > 1e-3),
    ('sqrt', 'SQRT(x)*SQRT(x)/x', 1, lambda x: x > 1e-9),
    ('abs', 'ABS(x)*ABS(x)-x*x', 0, lambda x: abs(x) < 1e4),
    ('asin(sin)', 'ASIN(SIN(x))-x', 0, lambda x: abs(x) < 1.5),
    ('sin(asin)', 'SIN(ASIN(x))-x', 0, lambda x: abs(x) <= 1),
    ('acos(cos)', 'ACOS(COS(x))-x', 0, lambda x: 0.01 < x < 3.1),
    ('cos(acos)', 'COS(ACOS(x))-x', 0, lambda x: abs(x) <= 1),
    ('asin+acos', 'ASIN(x)+ACOS(x)-PI()/2', 0, lambda x: abs(x) <= 1),
    ('atan(tan)', 'ATAN(TAN(x))-x', 0, lambda x: abs(x) < 1.5),
    ('tan(atan)', 'TAN(ATAN(x))/x', 1, lambda x: 1e-6 < abs(x) < 1e4),
    ('acot', 'ACOT(x)-ATAN(1/x)', 0, lambda x: abs(x) > 1e-6),
    ('cosh2-sinh2', 'COSH(x)*COSH(x)-SINH(x)*SINH(x)', 1, lambda x: abs(x) < 3),
    ('tanh', 'TANH(x)*COSH(x)/SINH(x)', 1, lambda x: 1e-3 < abs(x) < 20),
    ('sinh', '2*SINH(x)/(EXP(x)-EXP(-x))', 1, lambda x: 1e-3 < abs(x) < 50),
    ('cosh', '2*COSH(x)/(EXP(x)+EXP(-x))', 1, lambda x: abs(x) < 50),
    ('asinh(sinh)', 'ASINH(SINH(x))-x', 0, lambda x: abs(x) < 10),
    ('acosh(cosh)', 'ACOSH(COSH(x))-ABS(x)', 0, lambda x: 0.05 < abs(x) < 10),
    ('atanh(tanh)', 'ATANH(TANH(x))-x', 0, lambda x: abs(x) < 3),
    ('acoth', 'ACOTH(x)-ATANH(1/x)', 0, lambda x: abs(x) > 1.001),
    ('degrees(radians)', 'DEGREES(RADIANS(x))-x', 0, lambda x: abs(x) < 1e5),
    ('radians', 'RADIANS(x)*180/PI()-x', 0, lambda x: abs(x) < 1e5),
]
# identities that hold for arguments of any magnitude (sampled up to 1e9)
IDL = [
    ('sinh(asinh)-large', 'SINH(ASINH(x))/x', 1),
    ('asinh-odd', 'ASINH(-x)/ASINH(x)', -1),
    ('atan-large', '(ATAN(x)+ATAN(1/x))*2/PI()/SIGN(x)', 1),
    ('acot-large', 'ACOT(x)*x', None),                 # -> 1 as |x| grows: checked against 1 only for |x| >= 1e5
    ('ln-square', 'LN(x*x)/LN(ABS(x))', 2),
    ('log10-large', 'LOG10(ABS(x)*10)-LOG10(ABS(x))', 1),
    ('sqrt-large', 'SQRT(x*x)/ABS(x)', 1),
    ('acoth-large', 'ACOTH(x)/ATANH(1/x)', 1),
    ('degrees-large', 'DEGREES(x)/x*PI()', 180),
    ('tanh-saturates', 'TANH(x)/SIGN(x)', None),       # -> 1: only for |x| >= 40
    ('abs-large', 'ABS(x)/x/SIGN(x)', 1),
]
ID2 = [
    ('log(x,b)', 'LOG(x,y)*LN(y)/LN(x)', 1, lambda x, y: x > 0 and y > 0 and abs(y - 1) > 1e-2 and abs(x - 1) > 1e-2),
    ('power', 'POWER(x,y)/EXP(y*LN(x))', 1, lambda x, y: 1e-3 < x < 1e3 and abs(y) < 20 and abs(y * math.log(x)) < 100),
    ('power-int', 'POWER(x,2)-x*x', 0, lambda x, y: abs(x) < 1e3),
    ('power-neg-base', 'POWER(-x,3)+x*x*x', 0, lambda x, y: abs(x) < 1e2),
    ('atan2-tan', 'TAN(ATAN2(x,y))*x/y', 1, lambda x, y: abs(x) > 1e-3 and abs(y) > 1e-3),
    ('atan2-quadrant-x', 'SIGN(COS(ATAN2(x,y)))-SIGN(x)', 0, lambda x, y: abs(x) > 1e-3 and abs(y) > 1e-3),
    ('atan2-quadrant-y', 'SIGN(SIN(ATAN2(x,y)))-SIGN(y)', 0, lambda x, y: abs(x) > 1e-3 and abs(y) > 1e-3),
    ('atan2-radius', 'SQRT(x*x+y*y)*COS(ATAN2(x,y))/x', 1, lambda x, y: abs(x) > 1e-3 and abs(y) > 1e-3),
]
CONST = [
    ('pi-digits', 'INT(PI()*100000000)', 314159265), ('pi-radians', 'RADIANS(180)-PI()', 0), ('atan2-axis-x', 'ATAN2(1,0)', 0),
    ('atan2-axis-x-neg', 'ATAN2(-1,0)-PI()', 0), ('atan2-axis-y', 'ATAN2(0,1)-PI()/2', 0), ('atan2-axis-y-neg', 'ATAN2(0,-2)+PI()/2', 0),
    ('acot0', 'ACOT(0)-PI()/2', 0), ('exp0', 'EXP(0)', 1), ('exp1', 'INT(EXP(1)*1000000)', 2718281), ('ln1', 'LN(1)', 0), ('sqrt0', 'SQRT(0)', 0),
    ('sin-pi/6', 'SIN(PI()/6)*2', 1), ('cos-pi/3', 'COS(PI()/3)*2', 1), ('tan-pi/4', 'TAN(PI()/4)', 1), ('asin1', 'ASIN(1)*2/PI()', 1),
    ('acos-1', 'ACOS(-1)/PI()', 1), ('atan1', 'ATAN(1)*4/PI()', 1), ('log-8-2', 'LOG(8,2)', 3), ('log10-1000', 'LOG10(1000)', 3),
    ('log-default-base', 'LOG(100)', 2), ('power-2-10', 'POWER(2,10)', 1024), ('power-half', 'POWER(9,0.5)', 3), ('sinh0', 'SINH(0)', 0),
    ('cosh0', 'COSH(0)', 1), ('degrees-pi', 'DEGREES(PI())', 180), ('sqrt-2', 'INT(SQRT(2)*1000000)', 1414213),
]


def sample_real(rng):
    k = rng.randrange(7)
    if k == 0:
        return rng.uniform(-1, 1)
    if k == 1:
        return rng.uniform(-10, 10)
    if k == 2:
        return 10 ** rng.uniform(-4, 4) * rng.choice([1, -1])
    if k == 3:
        return rng.choice([0.5, -0.5, 0.25, 1.5, 2, 3, -2, 0.001, 1, -1, 0.999, 1.001, 100])
    if k == 4:
        return rng.uniform(0, 3.14)
    if k == 5:
        return rng.uniform(1, 50)
    return rng.uniform(-3, 3)


def got_want(o_out, want, env, text, name):
    """the identity's result re-expressed as  got = want  for TLC (values snapped within 1e-9)"""
    e = dict(env)
    got = o_out['res'] if o_out['err'] == '' else {'t': 'err', 'c': o_out['err']}
    e['vars'] = dict(env['vars'], got=got, want=enc(want))
    return {'ast': F.binop('=', F.var('got'), F.var('want')), 'env': e, 'formula': text,
            'out': {'keys': ['error', 'result'], 'res': enc(True), 'err': '', 'errkind': 'none'},
            'events': [], 'calls': [], 'checks': ['value'], 'in': {'identity': name, 'formula': text, 'vars': env['vars']}}


def main(tier, replay=None):
    run = core.Run('C16', tier, keep_replays=bool(replay))
    values.TOL[0] = 1e-9
    lib = core.load_library()
    names, bconst = core.builtins_constant()
    consts = {'Builtins': bconst}
    run.rule = ('one observation = one call classified number/error against its domain, or one identity formula whose result is '
                'compared with its exact constant; distinct by (formula, bindings); non-trivial = all')
    run.assumptions = ['there is no pointwise oracle: TLA+ cannot compute transcendental functions; values are verified only through '
                       'the identities, to 1e-9 relative - a wrong function that satisfied every identity it occurs in would pass '
                       '(each function occurs in at least two identities, plus exact anchor values)',
                       'the identity formulas are evaluated by the library\'s own operators (verified by C06) and INT/SIGN (C17)',
                       'arguments up to 600 in magnitude; overflow territory (EXP(1000)) and blank arguments are not exercised',
                       'PV: integer periods 0..40, rate in (-1, 1], checked through the annuity equation evaluated by the library']
    quick = tier == 'quick'
    rng = random.Random(run.seed)
    p = lib.Parser()
    if replay:
        c = json.load(open(replay))['case']
        if 'identity' in c.get('in', {}):
            for k, v in c['in']['vars'].items():
                p.set_variable(k, values.dec(v))
            out = values.outcome(p.parse(c['in']['formula']))
            o = got_want(out, values.dec(c['env']['vars']['want']), {'vars': c['in']['vars'], **{k: [] for k in ('cellsets', 'rangesets', 'varsets', 'fnsets')}, 'funcs': {}}, c['in']['formula'], c['in']['identity'])
        else:
            o = fncases.observe(lib, [c['in']], literal=False)[0]
        o['id'] = 1
        v = core.validate_obs(run, 'Trace_Eval', [o], 'replay', consts)
        core.tally(run, [o], v, 'c16')
        return run.finish()
    cf = os.path.join(core.scratch(), 'c16_cases.ndjson')
    r = core.run_tlc('MC_C16.tla', 'MC_C16.cfg', env={'CASE_FILE': cf})
    run.add_tlc('MC_C16', r)
    cases = core.read_cases(cf)
    run.extra['tlc_domain_cases'] = len(cases)
    # random classification cases around the domain boundaries
    f1 = ['SQRT', 'LN', 'LOG10', 'ASIN', 'ACOS', 'ACOSH', 'ATANH', 'ACOTH', 'COT', 'EXP', 'SIN', 'COS', 'TAN', 'SINH', 'COSH', 'TANH',
          'ASINH', 'ATAN', 'ACOT', 'RADIANS', 'DEGREES', 'ABS']
    for _ in range(2500 if quick else 60000):
        x = Fraction(rng.randint(-3000, 3000), rng.choice([1, 2, 10, 100, 1000]))
        v = values.enc_num(x) if rng.random() < 0.8 else enc(str(float(x)) if x.denominator > 1 else str(int(x)))
        if rng.random() < 0.7:
            cases.append({'f': rng.choice(f1), 'args': [v]})
        else:
            y = values.enc_num(Fraction(rng.randint(-40, 40), rng.choice([1, 2, 4])))
            cases.append({'f': rng.choice(['ATAN2', 'LOG', 'POWER']), 'args': [v, y]})
    # text that spells no number - the empty text included - is an error for every function, in every argument
    for f in f1 + ['LOG']:
        for t in ('', ' ', 'abc', '1x', '--1', '1,5', 'e', '.', '1e', 'pi', '0x10', 'inf', 'nan', 'Infinity', '-inf', 'NaN', 'TRUE',
                  rng.choice(['q', 'é', '#', '1 2'])):
            cases.append({'f': f, 'args': [enc(t)]})
    for f in ('ATAN2', 'LOG', 'POWER'):
        for t in ('', ' ', 'abc', '1x'):
            cases.append({'f': f, 'args': [enc(t), enc(2)]})
            cases.append({'f': f, 'args': [enc(2), enc(t)]})
    # floats a few units in the last place off the bounds of a domain: inside is a number, outside an error, however close
    import math
    edge = []
    for b in (1.0, -1.0):
        for k in (1, 2, 5):
            up = dn = b
            for _ in range(k):
                up, dn = math.nextafter(up, math.inf), math.nextafter(dn, -math.inf)
            edge += [up, dn]
        edge += [b + 1e-13, b - 1e-13, b + 1e-9, b - 1e-9]
    edge += [1e-13, -1e-13, 1e-9, -1e-9, 2.0 ** -60, -2.0 ** -60]      # (digit strings of subnormal numbers are too long for TLC's stack)
    for f in ('ASIN', 'ACOS', 'ATANH', 'ACOTH', 'ACOSH', 'SQRT', 'LN', 'LOG10', 'COT', 'ATAN', 'EXP'):
        for x in edge:
            if x != 0:
                cases.append({'f': f, 'args': [values.flt_exact(x)]})
    # long spellings of ordinary numbers: many zeros after the point, trailing zeros, padding - numeric text however long
    longs = ['0.000000000000000000000000000000125', '4000000000000000000000000000000000000', '1.50000000000000000000000000000000000',
             '0000000000000000000000000000000000002', '      ' * 6 + '7.5', '-0.0000000000000000000000000000000000005', '2.' + '0' * 60,
             '1' + '0' * 40 + '.5']
    for f in ('SQRT', 'ABS', 'EXP', 'LN', 'ATAN', 'SIN', 'LOG10', 'COS', 'TANH', 'ASINH', 'ACOT', 'DEGREES'):
        for t in longs:
            cases.append({'f': f, 'args': [enc(t)]})
    obs = fncases.observe(lib, cases, literal=False, twins=True)
    so = suite.observations({'ABS','SQRT','EXP','LN','LOG','LOG10','POWER','SIN','COS','TAN','COT','ASIN','ACOS','ATAN','ACOT','SINH','COSH','TANH','ASINH','ACOSH','ATANH','ACOTH','ATAN2','RADIANS','DEGREES'}, len(obs) + 1)   # the same functions as the repository's own tests call them
    run.extra['calls_from_repository_tests'] = len(so)
    obs += so
    n_class = len(obs)
    env0 = F.empty_env()
    # identities
    nid = 250 if quick else 6000
    for name, text, want, dom in ID1:
        k = 0
        while k < nid // 10:
            x = sample_real(rng)
            if not dom(x):
                continue
            k += 1
            only_args = all(text[i - 1] == '(' for i in range(len(text)) if text[i] == 'x' and (i + 1 == len(text) or not text[i + 1].isalpha())
                            and not text[i - 1].isalpha())
            for xv in ([x, str(x)] if k % 7 == 0 and only_args else [x]):     # numeric text is accepted as a number by the functions
                p.set_variable('x', xv)
                env = dict(env0, vars={'x': enc(xv) if not isinstance(xv, float) else {'t': 'flt', 'r': repr(xv)}})
                obs.append(got_want(values.outcome(p.parse(text)), want, env, text, name))
    for name, text, want in IDL:
        for _ in range(nid // 10):
            x = rng.choice([1, -1]) * 10 ** rng.uniform(1.5, 9)
            w = want
            if name == 'acot-large':
                if abs(x) < 1e5:
                    continue
                w = 1
            if name == 'tanh-saturates':
                x = rng.choice([1, -1]) * rng.uniform(40, 600)
                w = 1
            if name in ('sinh(asinh)-large', 'asinh-odd') and False:
                continue
            p.set_variable('x', x)
            env = dict(env0, vars={'x': {'t': 'flt', 'r': repr(x)}})
            obs.append(got_want(values.outcome(p.parse(text)), w, env, text, name))
    # numeric text in exponent notation is numeric text too
    for name, text, want, dom in ID1:
        only_args = 'x*' not in text and '-x' not in text and '/x' not in text and '*x' not in text
        if not only_args:
            continue
        for _ in range(max(2, nid // 40)):
            x = sample_real(rng)
            if not dom(x):
                continue
            for xv in ('%.15e' % x, ('%.12E' % x).replace('E', 'E+') if 'E-' not in ('%.12E' % x) and 'E+' not in ('%.12E' % x) else '%.12E' % x):
                if not dom(float(xv)):
                    continue
                p.set_variable('x', xv)
                env = dict(env0, vars={'x': enc(xv)})
                obs.append(got_want(values.outcome(p.parse(text)), want, env, text, name + '[exponent text]'))
    for name, text, want, dom in ID2:
        k = 0
        while k < nid // 10:
            x, y = sample_real(rng), sample_real(rng)
            if not dom(x, y):
                continue
            k += 1
            p.set_variable('x', x)
            p.set_variable('y', y)
            env = dict(env0, vars={'x': {'t': 'flt', 'r': repr(x)}, 'y': {'t': 'flt', 'r': repr(y)}})
            obs.append(got_want(values.outcome(p.parse(text)), want, env, text, name))
    # logarithms of numbers next to 1: tiny, but not zero - checked as a ratio, so that the size of the value does not hide it
    for k in range(3, 14):
        for sgn in (1, -1):
            x = 1 + sgn * 10.0 ** -k * rng.choice([1, 2.5, 5])
            for name, text in (('log10-near-one', 'LOG10(x)*LN(10)/LN(x)'), ('log-near-one', 'LOG(x,2)*LN(2)/LN(x)'),
                               ('log-default-near-one', 'LOG(x)*LN(10)/LN(x)')):
                p.set_variable('x', x)
                env = dict(env0, vars={'x': {'t': 'flt', 'r': repr(x)}})
                obs.append(got_want(values.outcome(p.parse(text)), 1, env, text, name))
    for name, text, want in CONST:
        obs.append(got_want(values.outcome(p.parse(text)), want, dict(env0, vars={}), text, name))
    # PV: annuity equation
    pvf = 'PV(r,n,pmt,fv,ty)*POWER(1+r,n)+pmt*(1+r*ty)*(POWER(1+r,n)-1)/r+fv'
    pv0 = 'PV(0,n,pmt,fv,ty)+pmt*n+fv'
    for i in range(400 if quick else 10000):
        rt = rng.choice([rng.randint(-900, 1000) / 1000, rng.choice([0.01, 0.05, 0.1, 0.125, -0.5, 1])])
        n = rng.randint(0, 40)
        if i % 8 == 3:      # a fractional number of periods, also at negative rates (the equation holds for every real n)
            n = rng.choice([7.5, 0.25, 12.75, 3.5, 20.125])
        if i % 8 == 0:      # rates close to, but not at, zero over many periods: still the annuity equation, not its limit
            rt = rng.choice([1, -1]) * rng.choice([2e-7, 5e-7, 9.9e-7, 1.5e-6, 1e-5, 1e-4, 0.001 / 12])
            n = rng.choice([120, 360, 1000])
        pmt, fv, ty = rng.choice([0, 100, -250.5, 1000]), rng.choice([0, 1000, -5000.25]), rng.choice([0, 1])
        for k, v in (('r', rt), ('n', n), ('pmt', pmt), ('fv', fv), ('ty', ty)):
            p.set_variable(k, v)
        env = dict(env0, vars={'r': {'t': 'flt', 'r': repr(rt)}, 'n': enc(n), 'pmt': enc(pmt), 'fv': enc(fv), 'ty': enc(ty)})
        if rt == 0:
            continue
        scale = 1 + abs(pmt) * 50 + abs(fv) * 3
        p.set_variable('scale', scale * (1 + abs(rt)) ** n)      # the residual is judged relative to the size of the terms
        out = values.outcome(p.parse('(' + pvf + ')/scale'))
        obs.append(got_want(out, 0, env, pvf, 'pv-annuity'))
        obs.append(got_want(values.outcome(p.parse(pv0)), 0, env, pv0, 'pv-zero-rate'))
        if fv == 0 and ty == 0:
            p3 = 'PV(r,n,pmt)-PV(r,n,pmt,0,0)'
            obs.append(got_want(values.outcome(p.parse(p3)), 0, env, p3, 'pv-defaults'))
    # RAND / RANDBETWEEN
    for _ in range(300 if quick else 5000):
        obs.append(got_want(values.outcome(p.parse('INT(RAND())')), 0, dict(env0, vars={}), 'INT(RAND())', 'rand-below-1'))
        obs.append(got_want(values.outcome(p.parse('RAND()>=0')), True, dict(env0, vars={}), 'RAND()>=0', 'rand-nonnegative'))
        a = rng.randint(-50, 50)
        b = a + rng.randint(0, 20)
        p.set_variable('a', a)
        p.set_variable('b', b)
        t = 'AND(RANDBETWEEN(a,b)>=a,RANDBETWEEN(a,b)<=b,INT(RANDBETWEEN(a,b))=RANDBETWEEN(a,a))'
        t = 'AND(RANDBETWEEN(a,b)>=a,RANDBETWEEN(a,b)<=b,RANDBETWEEN(a,a)=a,RANDBETWEEN(b,b)-INT(RANDBETWEEN(b,b))=0)'
        obs.append(got_want(values.outcome(p.parse(t)), True, dict(env0, vars={'a': enc(a), 'b': enc(b)}), t, 'randbetween'))
    for n, o in enumerate(obs, 1):
        o['id'] = n
    run.extra['classification_cases'] = n_class
    run.extra['identity_observations'] = len(obs) - n_class
    CH = 25000
    for k in range(0, len(obs), CH):
        part = obs[k:k + CH]
        v = core.validate_obs(run, 'Trace_Eval', part, 'p%d' % (k // CH), consts)
        core.tally(run, part, v, 'c16', key=lambda o: o['formula'] + json.dumps(o['in'], sort_keys=True, default=str)[:300])
    run.exhaustive = False
    run.samples = [obs[5]['in'], obs[n_class + 3]['in'], obs[-1]['in']]
    return run.finish()
