# -*- coding: utf-8 -*-
"""C09 - names resolve to what was registered; unknown names are #NAME?.
MC_C09 checks the laws on XLParser for every registration history in the bound and exports the
histories; each is replayed on two real parsers and probed with formulas putting variables and calls
in six contexts; the 156 documented names are probed at arities 0..3; random identifier-shaped names
and host values of arbitrary type.  Trace_Hist (state carried by TLC) judges every event."""
import json
import os
import random

from . import core
from . import formula as F
from .values import enc, dec, Opaque

CHECKS = ['value', 'events', 'calls']


def contexts(x):
    one = F.num('1')
    return [x, F.binop('+', x, one), F.binop('+', one, x), F.call('ABS', x),
            F.call('SUM', one, F.call('ABS', x)), F.arr(one, x)]


_M = object()


def shaped(kind, fn):
    """the same host function as another kind of Python callable (what set_function may be given)"""
    if kind == 'closure':
        return fn
    if kind == 'lambda':
        return lambda *a: fn(*a)
    if kind == 'method':            # bound method, one optional parameter
        class Host(object):
            def m(self, a=_M, b=_M, c=_M):
                return fn(*[x for x in (a, b, c) if x is not _M])
        return Host().m
    if kind == 'method2':           # bound method taking exactly two arguments
        class Host2(object):
            def m(self, a, b):
                return fn(a, b)
        return Host2().m
    if kind == 'classmethod':
        class HostC(object):
            @classmethod
            def m(cls, a=_M, b=_M, c=_M):
                return fn(*[x for x in (a, b, c) if x is not _M])
        return HostC.m
    if kind == 'staticmethod':
        class HostS(object):
            @staticmethod
            def m(a=_M, b=_M, c=_M):
                return fn(*[x for x in (a, b, c) if x is not _M])
        return HostS.m
    if kind == 'partial':
        import functools
        return functools.partial(lambda tag, *a: fn(*a), 'tag')
    if kind == 'object':
        class Callable(object):
            def __call__(self, *a):
                return fn(*a)
        return Callable()
    if kind == 'falsy':             # a callable container that is empty, hence false in a boolean context
        class Registry(dict):
            def __call__(self, *a):
                return fn(*a)
        return Registry()
    if kind == 'defaults':
        def with_defaults(a=_M, b=_M, c=_M):
            return fn(*[x for x in (a, b, c) if x is not _M])
        return with_defaults
    raise ValueError(kind)


SHAPES = ['closure', 'method', 'lambda', 'classmethod', 'partial', 'staticmethod', 'object', 'defaults', 'falsy']


class Hist(object):
    def __init__(self, lib, tid, case):
        self.nfn = 0
        self.lib = lib
        self.tid = tid
        self.case = case
        self.ev = []
        self.h = {}

    def parser(self, p):
        if p not in self.h:
            self.h[p] = F.Harnessed(self.lib, F.empty_env())
        return self.h[p]

    def setvar(self, p, name, v):
        try:
            self.parser(p).p.set_variable(name, dec(v))
        except Exception:      # registering a value - whatever it is - does not fail
            self.ev.append({'e': 'setvar', 'p': p, 'name': name, 'v': v, 'raised': True})
            return
        self.ev.append({'e': 'setvar', 'p': p, 'name': name, 'v': v})

    def setfn(self, p, name, c, shape=None):
        h = self.parser(p)
        self.nfn += 1
        kind = shape or SHAPES[self.nfn % len(SHAPES)]
        try:
            h.p.set_function(name, shaped(kind, h.custom(name, c)))
        except Exception:
            self.ev.append({'e': 'setfn', 'p': p, 'name': name, 'c': c, 'callable': kind, 'raised': True})
            return
        self.ev.append({'e': 'setfn', 'p': p, 'name': name, 'c': c, 'callable': kind})

    def parse(self, p, ast, checks=CHECKS):
        text = F.render(ast)
        o = self.parser(p).parse(text)
        o.update({'e': 'parse', 'p': p, 'ast': ast, 'formula': text, 'checks': checks})
        self.ev.append(o)

    def trace(self):
        return {'tid': self.tid, 'ev': self.ev, 'case': self.case}


def replay_case(lib, tid, case):
    h = Hist(lib, tid, case)
    for p in ('p1', 'p2'):
        h.parser(p)
    mid = case.get('mid', [])
    for n, o in enumerate(case['hist']):
        # evaluations interleaved with the registrations: a name is used before it is (re)bound
        for p, ast in (mid[n] if n < len(mid) else []):
            h.parse(p, ast)
        if o['k'] == 'setvar':
            h.setvar(o['p'], o['name'], o['x'])
        else:
            h.setfn(o['p'], o['name'], o['x'])
    for p, ast in case['probes']:
        h.parse(p, ast)
    if case.get('crossparser', True):
        # a custom function of p1 that, in passing, has p2 evaluate something: the rest of p1's formula still resolves on p1
        h.setfn('p1', 'XPEEK', {'mode': 'const', 'v': enc(0), 'i': 0}, shape='closure')
        other = h.parser('p2')
        h.parser('p1').hooks = {'call:XPEEK': lambda hh, args: other.parse('va+FA(2)+SUM(1,vb)')}
        for a in (F.binop('+', F.call('XPEEK'), F.var('va')), F.binop('+', F.call('XPEEK'), F.call('FA', F.num('2'))),
                  F.call('SUM', F.call('XPEEK'), F.var('vb'), F.call('SUM', F.num('1'))), F.binop('&', F.call('XPEEK'), F.var('vu'))):
            h.parse('p1', a)
        h.parser('p1').hooks = {}
    if case.get('blankvar', True):
        h.setvar('p2', 'vnone', {'t': 'blank'})
        h.setfn('p2', 'triple', {'mode': 'arg', 'v': {'t': 'blank'}, 'i': 1})
        for a in (F.var('vnone'), F.call('ISBLANK', F.var('vnone')), F.binop('+', F.var('vnone'), F.num('1')),
                  F.call('triple', F.num('5')), F.call('TRIPLE', F.num('5')), F.call('Triple', F.num('5'))):
            h.parse('p2', a)
            h.parse('p1', a)
    return h.trace()


def all_probes():
    out = []
    for p in ('p1', 'p2'):
        for n in ('va', 'vb', 'vu', 'TRUE', 'FALSE', 'NULL'):
            for a in contexts(F.var(n)):
                out.append((p, a))
        for f in ('FA', 'SUM', 'FZ'):
            for a in contexts(F.call(f, F.num('2'))):
                out.append((p, a))
            out.append((p, F.call(f, F.num('2'), F.num('3'))))
        for f in ('sum', 'Sum', 'fa', 'abs'):       # other spellings of registered / built-in names are other names
            out.append((p, F.call(f, F.num('2'))))
        out.append((p, F.call('ISBLANK', F.var('NULL'))))
    return out


def rand_name(rng):
    while True:
        head = ''.join(rng.choice('abcxyzABCXYZqQ') for _ in range(rng.randint(1, 6)))
        tail = ''
        if rng.random() < 0.5:
            tail = '_' + ''.join(rng.choice('abcXYZ_0123456789') for _ in range(rng.randint(0, 5)))
        n = head + tail
        if n.upper() not in ('TRUE', 'FALSE', 'NULL'):
            return n


def rand_value(rng, i):
    k = rng.randrange(9)
    if k == 8:
        return {'t': 'blank'}          # a variable may be set to None: it is then a blank, not an unknown name
    if k == 0:
        return enc(rng.randint(-1000, 1000))
    if k == 1:
        return enc(rng.choice([0.5, -2.25, 1e3, 0.1]))
    if k == 2:
        return enc(''.join(rng.choice('abc xyz#!é漢') for _ in range(rng.randint(0, 8))))
    if k == 3:
        return enc(rng.random() < 0.5)
    if k == 4:
        return enc([1, 'a', [2, None]])
    if k == 5:
        return {'t': 'date', 'y': 2020, 'mo': 2, 'd': 29, 'ms': 3600000}
    return {'t': 'opq', 'r': ('tag:obj%d' if rng.random() < 0.6 else 'tag:exc%d') % i}     # (exc: a host object that is an exception instance)


def random_case(rng, i):
    hist = []
    names = [rand_name(rng) for _ in range(3)]
    fns = [rand_name(rng).upper() + rng.choice(['', '.X', '_F']) for _ in range(2)] + ['SUM', 'ABS', 'IF'] + \
          [rng.choice(['triple', 'Net_Price', 'my.fn', 'sum', 'Abs', 'iF', 'f', 'fn', 'next_id', 'lookup_rate', 'xl', 'n', 'x_f', 'lf'])]      # names are case-sensitive
    for _ in range(rng.randint(1, 8)):
        p = rng.choice(['p1', 'p2', 'p3'])
        if rng.random() < 0.6:
            hist.append({'k': 'setvar', 'p': p, 'name': rng.choice(names), 'x': rand_value(rng, i)})
        else:
            hist.append({'k': 'setfn', 'p': p, 'name': rng.choice(fns),
                         'x': rng.choice([{'mode': 'const', 'v': rand_value(rng, i), 'i': 0},
                                          {'mode': 'arg', 'v': {'t': 'blank'}, 'i': rng.randint(1, 2)}])})
    probes = []
    for _ in range(rng.randint(2, 8)):
        p = rng.choice(['p1', 'p2', 'p3'])
        if rng.random() < 0.5:
            x = F.var(rng.choice(names + [rand_name(rng)]))
        else:
            x = F.call(rng.choice(fns + [rand_name(rng).upper() + 'Q']), F.num('2'), F.var(rng.choice(names)))
        probes.append((p, rng.choice(contexts(x)[:1] * 3 + contexts(x))))
    mid = []
    for _ in hist:
        m = []
        for _ in range(rng.choice([0, 0, 1, 2])):
            p = rng.choice(['p1', 'p2', 'p3'])
            x = F.var(rng.choice(names)) if rng.random() < 0.5 else \
                F.call(rng.choice(fns), F.num('2'), F.var(rng.choice(names)))
            m.append((p, x))
        mid.append(m)
    return {'hist': hist, 'probes': probes, 'mid': mid}


def resolve_trace(lib, names, tid):
    """every documented name, arities 0..3 with benign arguments; a callFunction event is evidence
    that the name reached a built-in"""
    ev = []
    for name in names:
        tries = []
        for ar in range(0, 4):
            h = F.Harnessed(lib, F.empty_env())
            text = '%s(%s)' % (name, ','.join(['1', '2', '3'][:ar]))
            o = h.parse(text)
            tries.append({'out': o['out'], 'events': o['events'], 'formula': text})
        ev.append({'e': 'resolve', 'name': name, 'tries': tries})
    return {'tid': tid, 'ev': ev, 'case': {'resolve_all_documented_names': len(names)}}


def near_miss_trace(lib, names, tid):
    """names that are not documented but contain, or are contained in, a documented one: still #NAME?"""
    h = Hist(lib, tid, {'near_miss_names': len(names)})
    known = set(names)
    for i, name in enumerate(names):
        for cand in (name + '.ALL', name + '.X', name + '_2', name + 'X', 'X' + name, name + '.' + name, name[:-1] if len(name) > 2 else name + 'Q',
                     'x' + name, 'n' + name, 'xl' + name, 'fn' + name, 'l' + name, '_xlfn.' + name + 'X', 'f' + name):
            if cand in known or not cand[0].isalpha():
                continue
            if (i + len(cand)) % 3 == 0:
                h.parse('p1', F.call(cand, F.num('1'), F.num('2')))
                h.parse('p1', F.binop('+', F.num('1'), F.call(cand, F.num('1'))))
    return h.trace()


def stamina_trace(lib, names, tid, calls=12000):
    """a long-lived parser, failed evaluations, then tens of thousands of function calls: names still resolve as at first"""
    h = Hist(lib, tid, {'stamina_calls': calls})
    h.setvar('p1', 'va', enc(3))
    h.setfn('p1', 'FA', {'mode': 'arg', 'v': {'t': 'blank'}, 'i': 1}, shape='closure')
    for bad in ('1+*2', 'nosuch+1', 'NOSUCHFN(1)', '1/0', '#REF!+1'):
        h.parser('p1').parse(bad)
    text = 'FA(2)+SUM(1,ABS(-2))+va'
    for _ in range(calls // 3):
        h.parser('p1').p.parse(text)
    for a in (F.call('FA', F.num('2')), F.binop('+', F.call('SUM', F.num('2'), F.num('3')), F.var('va')), F.call('NOSUCHFN', F.num('1')),
              F.var('nosuch'), F.call('ABS', F.neg(F.num('4')))):
        h.parse('p1', a)
    return h.trace()


def shadow_trace(lib, names, tid):
    """every documented name shadowed by a custom function, called with 0, 1 and 2 arguments: the custom function
    is the one that is called, once, and its value is the call's value"""
    h = Hist(lib, tid, {'shadow_all_documented_names': len(names)})
    for i, name in enumerate(names):
        h.setfn('p1', name, {'mode': 'const', 'v': enc(100000 + i), 'i': 0})
    for i, name in enumerate(names):
        h.parse('p1', F.call(name))
        h.parse('p1', F.binop('+', F.call(name, F.num('2')), F.call(name)))
        if i % 5 == 0:
            h.parse('p1', F.call('SUM', F.call(name, F.num('2'), F.num('3')), F.num('1')))
    h.setfn('p1', 'EXACT2', {'mode': 'arg', 'v': {'t': 'blank'}, 'i': 2}, shape='method2')
    h.parse('p1', F.call('EXACT2', F.num('4'), F.num('9')))
    return h.trace()


def reenter_trace(lib, names, tid):
    """a custom function that evaluates another formula on the same parser while it runs (a workbook name with a defining
    formula): every evaluation of a formula that calls it calls it again, once per call site, also after it was rebound"""
    h = Hist(lib, tid, {'reentrant_custom_function': True})
    h.setvar('p1', 'va', enc(3))
    h.setfn('p1', 'NAMED', {'mode': 'const', 'v': enc(42), 'i': 0}, shape='closure')
    h.setfn('p1', 'FA', {'mode': 'arg', 'v': {'t': 'blank'}, 'i': 1}, shape='closure')
    hp = h.parser('p1')
    inner = ['2*21']

    def nested(hh, args):
        saved, hh.hooks = hh.hooks, {}
        hh.frames.append([[], []])
        try:
            hh.p.parse(inner[0])
        finally:
            hh.frames.pop()
            hh.hooks = saved
    hp.hooks['call:NAMED'] = nested
    hp.hooks['call:FA'] = nested
    forms = [F.call('NAMED', F.string('rate')), F.binop('+', F.call('NAMED', F.num('1')), F.var('va')),
             F.binop('*', F.call('FA', F.num('2')), F.call('FA', F.num('5'))), F.call('SUM', F.call('NAMED'), F.call('FA', F.num('1')))]
    for _ in range(3):
        for a in forms:
            h.parse('p1', a)
    inner[0] = 'va+SUM(1,2)'
    h.setfn('p1', 'NAMED', {'mode': 'const', 'v': enc(10), 'i': 0}, shape='closure')
    for a in forms:
        h.parse('p1', a)
    h.setvar('p1', 'va', enc(100))
    for a in forms:
        h.parse('p1', a)
    hp.hooks = {}
    for a in forms:
        h.parse('p1', a)
    return h.trace()


def main(tier, replay=None):
    run = core.Run('C09', tier, keep_replays=bool(replay))
    lib = core.load_library()
    names, bconst = core.builtins_constant()
    consts = {'Builtins': bconst}
    run.rule = ('one history = registrations (set_variable / set_function, custom functions shadowing built-ins) on up '
                'to three parsers followed by probe formulas; distinct by (history, probes); non-trivial = all')
    run.assumptions = ['identifier-shaped names: letters, then optionally an underscore followed by letters/digits/'
                       'underscores (a digit right after the leading letters would lex as a cell reference)',
                       'a documented name counts as resolved when some arity 0..3 raises a callFunction event for it']
    if replay:
        case = json.load(open(replay))['case']
        if 'resolve_all_documented_names' in case:
            tr = [resolve_trace(lib, names, 1)]
        elif 'shadow_all_documented_names' in case:
            tr = [shadow_trace(lib, names, 1)]
        elif 'near_miss_names' in case:
            tr = [near_miss_trace(lib, names, 1)]
        elif 'reentrant_custom_function' in case:
            tr = [reenter_trace(lib, names, 1)]
        elif 'stamina_calls' in case:
            tr = [stamina_trace(lib, names, 1, case['stamina_calls'])]
        elif case.get('kind') == 'cold':
            from . import c03
            ev, pn = c03.run_cold(lib, case)
            core.validate_hist(run, [{'tid': 1, 'ev': ev, 'case': case}], 'replay', consts, engine='c09', parsers=pn)
            return run.finish()
        else:
            tr = [replay_case(lib, 1, case)]
        core.validate_hist(run, tr, 'replay', consts, engine='c09')
        return run.finish()
    quick = tier == 'quick'
    cf = os.path.join(core.scratch(), 'c09_cases.ndjson')
    r = core.run_tlc('MC_C09.tla', 'MC_C09_quick.cfg' if quick else 'MC_C09_thorough.cfg', env={'CASE_FILE': cf})
    run.add_tlc('MC_C09', r)
    hists = core.read_cases(cf)
    run.extra['tlc_histories'] = len(hists)
    rng = random.Random(run.seed)
    probes = all_probes()
    traces = []
    state = {'n': 0, 'part': 0, 'samples': []}
    CH = 3000 if quick else 1000

    def emit(tr_fn):
        """replay one history and validate in chunks: nothing but the current chunk is kept in memory"""
        state['n'] += 1
        t = tr_fn(state['n'])
        if len(state['samples']) < 8:
            state['samples'].append({'case': t['case']})
        traces.append(t)
        if len(traces) >= CH:
            flush()

    def flush():
        if traces:
            core.validate_hist(run, traces, 'p%d' % state['part'], consts, engine='c09')
            state['part'] += 1
            del traces[:]

    midset = [(p, a) for p in ('p1', 'p2') for a in (F.var('va'), F.var('vb'), F.call('FA', F.num('2')),
                                                     F.call('SUM', F.num('2'), F.num('3')))]
    for c in hists:
        pr = rng.sample(probes, 10 if quick else 40)
        mid = [rng.sample(midset, 3 if quick else 5) for _ in c['hist']]
        emit(lambda tid: replay_case(lib, tid, {'hist': c['hist'], 'probes': pr, 'mid': mid}))
    for i in range(1500 if quick else 30000):
        rc = random_case(rng, i)
        emit(lambda tid: replay_case(lib, tid, rc))
    emit(lambda tid: shadow_trace(lib, names, tid))
    emit(lambda tid: near_miss_trace(lib, names, tid))
    emit(lambda tid: reenter_trace(lib, names, tid))
    emit(lambda tid: stamina_trace(lib, names, tid, 12000 if quick else 120000))
    flush()
    # every documented name resolves also when the first look-ups of a process happen in several threads at once
    from . import c03
    for rep in range(3 if quick else 20):
        case = {'kind': 'cold', 'n': [4, 8, 8][rep % 3], 'step': 1 + rep % 5, 'rep': rep}
        ev, pn = c03.run_cold(lib, case)
        core.validate_hist(run, [{'tid': 1, 'ev': ev, 'case': case}], 'cold%d' % rep, consts, engine='c09', parsers=pn)
    emit(lambda tid: resolve_trace(lib, names, tid))
    flush()
    run.exhaustive = True
    run.samples = state['samples'][4:6]
    return run.finish()
