# -*- coding: utf-8 -*-
"""C17 - rounding and integer functions meet their specifications; radix conversions invert.
MC_C17: the relations of XLMath are satisfiable by the textbook witnesses, MOD/QUOTIENT decompose,
radix digits / Roman numerals / factorials round-trip through BigNat on the specification.
Conformance (Trace_C17): grids and random arguments for ROUND*/CEILING/FLOOR/INT/EVEN/ODD/SIGN/
QUOTIENT/MOD, FACT/FACTDOUBLE, DEC2HEX/HEX2DEC over the 40-bit range, BASE/DECIMAL for every radix,
ROMAN forms 0..4 with ARABIC, COMPLEX parts - results judged by TLC with BigNat arithmetic."""
import json
import os
import random
from fractions import Fraction

from . import core
from . import values
from .values import enc, enc_num


def encbig(v):
    """integers of any size travel as sign + decimal digit code points"""
    if isinstance(v, bool):
        return enc(v)
    if isinstance(v, int):
        if abs(v) < 2 ** 31:
            return enc(v)
        return {'t': 'dec', 'neg': v < 0, 'ds': [ord(c) for c in str(abs(v))]}
    if isinstance(v, float) and v == int(v) and abs(v) >= 2 ** 31 and abs(v) < 1e18:
        return encbig(int(v))
    if isinstance(v, (list, tuple)):
        return {'t': 'arr', 'a': [encbig(x) for x in v]}
    return enc(v)


def value_of(p, formula):
    r = p.parse(formula)
    if r['error'] is not None:
        return {'t': 'err', 'c': r['error']}
    return encbig(r['result'])


def q(fr):
    return enc_num(Fraction(fr))


def pynum(fr):
    fr = Fraction(fr)
    return fr.numerator if fr.denominator == 1 else fr.numerator / fr.denominator


def dec_in(n):
    return {'neg': n < 0, 'ds': [ord(c) for c in str(abs(n))]}


class Obs(object):
    def __init__(self, lib):
        self.p = lib.Parser()
        self.obs = []
        self.queue = []
        self.first = {}

    def add(self, kind, inp, formula, **vars):
        self.queue.append(('one', kind, inp, formula, None, vars))

    def flush(self, rng=None, prior=None):
        """evaluate what was queued, in a seeded random order (an answer must not depend on which call of its kind
        came first in the process); each observation remembers the first evaluation of its kind, for replay"""
        q, self.queue = self.queue, []
        if rng is not None:
            rng.shuffle(q)
            # numbers whose numeral needs only the first rows of a conversion table go first
            q.sort(key=lambda e: 0 if e[1] == 'roman' and e[2]['n'] in (1000, 2000, 3000, 500, 900) else 1)
        if prior:
            for f, vars in prior:
                for k, v in vars.items():
                    self.p.set_variable(k, v)
                value_of(self.p, f)
        for qi, (mode, kind, inp, f1, f2, vars) in enumerate(q):
            if qi % 4 == 3 and kind != 'factrel':       # computed arguments: whole numbers held as floats (exactly, below 2^53)
                vars = {k: (float(v) if isinstance(v, int) and not isinstance(v, bool) and abs(v) < 2 ** 53 else v) for k, v in vars.items()}
                inp = dict(inp, floats=1)
            for k, v in vars.items():
                self.p.set_variable(k, v)
            key = (kind, inp.get('form'), inp.get('f'), inp.get('r'))
            first = self.first.setdefault(key, {'formula': f1, 'vars': {k: (v if not isinstance(v, Fraction) else float(v)) for k, v in vars.items()}})
            if mode == 'one':
                o = {'kind': kind, 'in': inp, 'formula': f1, 'out': value_of(self.p, f1)}
            else:
                o = {'kind': kind, 'in': inp, 'formula': f1 + ' ; ' + f2,
                     'out': {'t': 'arr', 'a': [value_of(self.p, f1), value_of(self.p, f2)]}}
            o['prior'] = first
            self.obs.append(o)

    def round(self, f, x, d):
        self.add('round', {'f': f, 'x': q(x), 'd': d}, '%s(vx,vd)' % f, vx=pynum(x), vd=d)

    def adj(self, f, x, s):
        self.add('adj', {'f': f, 'x': q(x), 's': q(s)}, '%s(vx,vs)' % f, vx=pynum(x), vs=pynum(s))

    def int1(self, f, x):
        self.add('int', {'f': f, 'x': q(x)}, '%s(vx)' % f, vx=pynum(x))

    def qm(self, n, d):
        self.add('qm', {'n': q(n), 'd': q(d)}, '{QUOTIENT(vn,vd),MOD(vn,vd)}', vn=pynum(n), vd=pynum(d))

    def fact(self, n):
        self.add('fact', {'n': n}, '{FACT(vn),FACTDOUBLE(vn)}', vn=n)

    def pair(self, kind, inp, f1, f2, **vars):
        # two formulas (the second may fail as a whole when the first is an error value)
        self.queue.append(('two', kind, inp, f1, f2, vars))

    def hex(self, n):
        self.pair('hex', dec_in(n), 'DEC2HEX(vn)', 'HEX2DEC(DEC2HEX(vn))', vn=n)

    def base(self, n, r):
        i = dec_in(n)
        i['r'] = r
        self.pair('base', i, 'BASE(vn,vr)', 'DECIMAL(BASE(vn,vr),vr)', vn=n, vr=r)

    def roman(self, n, form):
        self.add('roman', {'n': n, 'form': form}, '{ROMAN(vn,vf),ARABIC(ROMAN(vn,vf))}', vn=n, vf=form)

    def cplx(self, a, b):
        self.add('cplx', {'a': a, 'b': b}, '{IMREAL(COMPLEX(va,vb)),IMAGINARY(COMPLEX(va,vb))}', va=a, vb=b)


def near_obs(rp, xn, xd, neg, d):
    """ROUND(x, d) for x = +-xn/xd far from zero, the answer recorded exactly (digit strings of numerator and denominator)"""
    import math
    x = (-1 if neg else 1) * xn / xd           # exact: xn < 2^53, xd a power of two
    rp.set_variable('va', x)
    rp.set_variable('vd', d)
    qq = rp.parse('ROUND(va,vd)')
    r = qq['result']
    isnum = qq['error'] is None and isinstance(r, (int, float)) and not isinstance(r, bool) and (not isinstance(r, float) or math.isfinite(r))
    fe = values.flt_exact(float(r)) if isnum else {'neg': False, 'nd': [48], 'dd': [49]}
    rk = (abs(float(r)).as_integer_ratio()[1].bit_length() - 1) if isnum else 0
    return {'kind': 'roundnear', 'op': 'roundnear', 'isnum': bool(isnum), 'xn': [ord(c) for c in str(xn)], 'xd': xd, 'xneg': neg, 'd': d,
            'r': {'neg': fe['neg'], 'nd': fe['nd'], 'dd': fe['dd']}, 'rk': rk,
            'a': {'neg': False, 'ds': [48]}, 'b': {'neg': False, 'ds': [48]}, 'k': 0,
            'in': {'x': repr(x), 'digits': d, 'xn': str(xn), 'xd': xd, 'neg': neg}, 'out': repr(r)[:40] if isnum else str(qq)[:60]}


def main(tier, replay=None):
    run = core.Run('C17', tier, keep_replays=bool(replay))
    values.TOL[0] = 1e-12     # arguments such as 5.1 are not exact in binary: results carry that noise
    lib = core.load_library()
    run.rule = ('one observation = one call (or one array formula of a function and its inverse) with rational / integer '
                'arguments bound as variables; distinct by (kind, input); non-trivial = all')
    run.assumptions = ['rounding relations are evaluated in exact rationals for digits -4..4 and arguments with at most three '
                       'decimals below 2*10^6 (TLC integers are 32-bit); digits +-5, +-6 are not exercised',
                       'on a tie ROUND may give either neighbour; CEILING with a positive number and negative significance is '
                       'unspecified; EVEN(0) = 0 and ODD(0) may be 1 or -1',
                       'integers beyond 32 bits travel as decimal digit strings and are compared with BigNat arithmetic in TLA+']
    quick = tier == 'quick'
    rng = random.Random(run.seed)
    O = Obs(lib)
    if replay:
        c = json.load(open(replay))['case']
        i, k = c['in'], c['kind']
        if k == 'roundnear':
            o = near_obs(lib.Parser(), int(i['xn']), i['xd'], i['neg'], i['digits'])
            o['id'] = 1
            v = core.validate_obs(run, 'Trace_Big', [o], 'replay')
            core.tally(run, [o], v, 'c17-roundnear')
            return run.finish()
        F = lambda v: Fraction(v['n'], v['d'])
        N = lambda v: int(''.join(chr(x) for x in v['ds'])) * (-1 if v['neg'] else 1)
        {'round': lambda: O.round(i['f'], F(i['x']), i['d']), 'adj': lambda: O.adj(i['f'], F(i['x']), F(i['s'])),
         'int': lambda: O.int1(i['f'], F(i['x'])), 'qm': lambda: O.qm(F(i['n']), F(i['d'])), 'fact': lambda: O.fact(i['n']),
         'hex': lambda: O.hex(N(i)), 'base': lambda: O.base(N(i), i['r']), 'roman': lambda: O.roman(i['n'], i['form']),
         'cplx': lambda: O.cplx(i['a'], i['b']),
         'factrel': lambda: O.add('factrel', {'n': i['n'], 'm': i['m']}, '{FACTDOUBLE(vn)=vn*FACTDOUBLE(vn-2),FACT(vm)=vm*FACT(vm-1),FACTDOUBLE(vn)>FACTDOUBLE(vn-2),FACT(vm)>0}', vn=i['n'], vm=i['m']),
         'factfrac': lambda: O.add('factfrac', {'x': i['x']}, '{FACT(vx),FACTDOUBLE(vx)}', vx=pynum(F(i['x'])))}[k]()
        pr = c.get('prior')
        O.flush(None, [(pr['formula'], pr['vars'])] if pr else None)
        O.obs[0]['id'] = 1
        v = core.validate_obs(run, 'Trace_C17', O.obs, 'replay')
        core.tally(run, O.obs, v, 'c17')
        return run.finish()
    r = core.run_tlc('MC_C17.tla', 'MC_C17_quick.cfg' if quick else 'MC_C17_thorough.cfg', timeout=3000)
    run.add_tlc('MC_C17', r)
    dens = [1, 2, 4, 5, 8, 10, 100, 1000]
    ks = list(range(-60, 61)) + [149, 150, 151, 249, 250, 251, 995, 999, 1000, 1005, 2675, -2675, 12345, -12345]
    if not quick:
        ks = list(range(-3000, 3001))
    for d in dens:
        for k in (ks if not quick else rng.sample(ks, 45) + [0, 5, -5, 15, 25, 1, -1]):
            x = Fraction(k, d)
            for dg in ((-3, -1, 0, 1, 2, 3) if quick else range(-4, 5)):
                for f in ('ROUND', 'ROUNDUP', 'ROUNDDOWN'):
                    O.round(f, x, dg)
            for s in (1, 2, Fraction(1, 2), Fraction(1, 4), 5, -1, -2, Fraction(-1, 2), -5, Fraction(3, 10), Fraction(1, 10)):
                O.adj('CEILING', x, s)
                O.adj('FLOOR', x, s)
            for f in ('INT', 'EVEN', 'ODD', 'SIGN'):
                O.int1(f, x)
            for dv in (1, 2, 3, -3, 7, Fraction(1, 2), Fraction(-1, 4), Fraction(5, 2), 0, 10, -10, Fraction(1, 10), Fraction(3, 10), Fraction(-1, 100)):
                O.qm(x, dv)
    # large numbers with a small remainder, rounded to whole numbers (the remainder is far above the binary noise there)
    bigs = [Fraction(k, 1000) for k in (1234567001, 1234567999, 1999999001, 1000000001, 999999999, 1500000500, 1234567500,
                                        -1234567001, -1999999999, 2000000000)] + \
           [Fraction(k, 100) for k in (999999999, 1234567801, -1234567899, 250000001)] + \
           [Fraction(k, 10) for k in (1999999999, -1999999991, 99999995)] + [Fraction(1999999999), Fraction(-2000000000)]
    bigs += [Fraction(rng.randint(10 ** 9, 2 * 10 ** 9) * rng.choice([1, -1]), rng.choice([1000, 1000, 100, 8])) for _ in range(40 if quick else 3000)]
    for x in bigs:
        for f in ('ROUND', 'ROUNDUP', 'ROUNDDOWN'):
            O.round(f, x, 0)
        O.adj('CEILING', x, 1)
        O.adj('FLOOR', x, 1)
        O.int1('INT', x)
        O.qm(x, 1)
    for x in (Fraction(-1, 2), Fraction(-1, 4), Fraction(-9, 10), Fraction(-3, 2), Fraction(1, 2), Fraction(5, 2)):
        O.add('factfrac', {'x': q(x)}, '{FACT(vx),FACTDOUBLE(vx)}', vx=pynum(x))
    for n in list(range(-3, 23)) + [25, 30, 31, 33, 35, 37, 40, 41, 45, 51, 60, 99, 100, 101]:
        O.fact(n)
    edge = [0, 1, -1, 15, 16, 255, 256, 2 ** 31 - 1, 2 ** 31, 2 ** 32, 2 ** 39 - 1, 2 ** 39, 2 ** 39 + 1, -2 ** 39, -2 ** 39 - 1,
            -2 ** 39 + 1, 2 ** 40 - 1, 2 ** 40, -2 ** 40, 10 ** 12, -10 ** 12]
    for k in range(2, 40):
        edge += [2 ** k, 2 ** k - 1, 2 ** k + 1, -2 ** k, -2 ** k + 1]
    for n in edge:
        O.hex(n)
    for _ in range(3000 if quick else 200000):
        O.hex(rng.choice([rng.randrange(-2 ** 39, 2 ** 39), rng.randrange(-70000, 70000), rng.randrange(-2 ** 41, 2 ** 41)]))
    for r in list(range(2, 37)) + [-1, 0, 1, 37, 40, 100]:
        for n in [0, 1, r - 1 if r > 1 else 5, r if r > 0 else 6, r * r if r > 1 else 7, 35, 36, 255, 2 ** 31, 2 ** 39 - 1, -1, -255] + \
                 [rng.randrange(0, 2 ** 39) for _ in range(20 if quick else 1500)] + list(range(0, 60 if quick else 3001, 1 if not quick else 7)):
            O.base(n, r)
        if r >= 2:      # every exact power of the radix below 2^39, and its neighbours (digit-count boundaries)
            pw = r
            while pw < 2 ** 39:
                for n in (pw - 1, pw, pw + 1):
                    O.base(n, r)
                pw *= r
    for form in range(0, 5):
        for n in (range(1, 4000) if not quick else list(range(1, 4000, 9)) + [4, 9, 14, 40, 45, 49, 90, 99, 400, 490, 495, 499, 900, 990, 995, 999, 1000, 2000, 3000, 500, 1999, 3999]):
            O.roman(n, form)
    for a, b in ((1234567, 2), (3, -2147483647), (1000000007, -1000000009), (999999, 1000000), (123456789, 987654321), (-7654321, 1234567)):
        O.cplx(a, b)
    # factorials far beyond what is multiplied out here: the recurrence n! = n (n-1)!, n!! = n (n-2)!! decides them
    for n, m in ((1201, 1000), (3000, 2001), (5001, 4000), (19999, 9999), (902, 901), (20000, 10000)):
        O.add('factrel', {'n': n, 'm': m}, '{FACTDOUBLE(vn)=vn*FACTDOUBLE(vn-2),FACT(vm)=vm*FACT(vm-1),FACTDOUBLE(vn)>FACTDOUBLE(vn-2),FACT(vm)>0}', vn=n, vm=m)
    for a in (range(-99, 100) if not quick else range(-99, 100, 11)):
        for b in (range(-99, 100) if not quick else (-99, -1, 0, 1, 7, 99)):
            O.cplx(a, b)
    O.flush(rng)
    obs = O.obs
    for n, o in enumerate(obs, 1):
        o['id'] = n
    run.extra['by_kind'] = {}
    for o in obs:
        run.extra['by_kind'][o['kind']] = run.extra['by_kind'].get(o['kind'], 0) + 1
    CH = 60000
    for k in range(0, len(obs), CH):
        part = obs[k:k + CH]
        v = core.validate_obs(run, 'Trace_C17', part, 'p%d' % (k // CH))
        core.tally(run, part, v, 'c17', key=lambda o: o['kind'] + json.dumps(o['in'], sort_keys=True))
    # ROUND far from zero with many digits: x * 10^digits between 2^31 and 10^13 (exact arithmetic on digit strings, Trace_Big):
    # the answer is within half a unit of x
    import math
    rp = lib.Parser()
    near = []
    for _ in range(400 if quick else 20000):
        d = rng.randint(2, 7)
        lo, hi = 2 ** 31 // 10 ** d + 1, 10 ** 13 // 10 ** d
        xd = rng.choice([1, 2, 4, 8, 16, 64, 1024])
        n = rng.randint(lo, max(lo + 1, hi - 1))
        xn = n * xd + rng.randrange(xd)
        neg = rng.random() < 0.3
        if xn >= 2 ** 53:
            continue
        near.append(near_obs(rp, xn, xd, neg, d))
    for n, o in enumerate(near, 1):
        o['id'] = n
    v = core.validate_obs(run, 'Trace_Big', near, 'roundnear')
    core.tally(run, near, v, 'c17-roundnear', key=lambda o: json.dumps(o['in'], sort_keys=True))
    run.extra['round_far_from_zero'] = len(near)
    run.exhaustive = not quick
    run.samples = [obs[10], obs[-1]]
    return run.finish()
