# -*- coding: utf-8 -*-
"""C15 - text functions satisfy their string algebra.  MC_C15: identities, relations and SUBSTITUTE
laws on XLText for every string up to MaxLen over a 6-symbol alphabet; all calls exported and
evaluated on the real parser (text bound as variables, and as literals when expressible) - Trace_Eval.
Identities as single formulas; UPPER/LOWER/PROPER/TRIM/CLEAN by relation and idempotence
(Trace_C15); CODE(CHAR(n)); CONCATENATE / TEXTJOIN over item lists with blanks and arrays."""
import json
import os
import random

from . import core, suite, fncases
from . import formula as F
from .values import enc

ALPHA = 'abcXYZ 019.,;-_/()#é É ü Ü ñ Ñ \t\x07漢字語' + "'" + '\\$^*+?[]{}|&<>'   # also what regex and format engines treat specially


def rstring(rng, lo=0, hi=60):
    n = rng.choice([0, 1, 2, 3, 5, 8, 13, 30, rng.randint(lo, hi)])
    s = ''.join(rng.choice(ALPHA) for _ in range(min(n, hi)))
    if rng.random() < 0.08:       # line ends next to spaces, at either end
        s = rng.choice(['', ' ', '\n', ' \n']) + s + rng.choice([' \n', '  \n', '\n ', '\n', ' \r\n', '\n\n'])
    return s


ASTRAL = ['\U00020bb7', '\U0001f600', '\U0001d49c', '\U00010400']     # beyond the Basic Multilingual Plane: one character, two UTF-16 units


def astral(rng, s, p=0.2):
    """now and then a character outside the BMP somewhere in s (lengths are counted in characters by every function alike)"""
    while rng.random() < p:
        i = rng.randint(0, len(s))
        s = s[:i] + rng.choice(ASTRAL) + s[i:]
    return s


def idem_obs(lib, f, s):
    p = lib.Parser()
    p.set_variable('va', s)
    once = p.parse('%s(va)' % f)
    twice = p.parse('%s(%s(va))' % (f, f))

    def val(r):
        return {'t': 'err', 'c': r['error']} if r['error'] is not None else enc(r['result'])
    return {'f': f, 's': F.cps(s), 'once': val(once), 'twice': val(twice), 'in': {'f': f, 's': s}}


def identity_cases(rng, n):
    """the three identities, each as one formula over variables"""
    out = []
    V = F.var
    for _ in range(n):
        s, t = astral(rng, rstring(rng)), astral(rng, rstring(rng, 0, 20), 0.1)
        k = rng.randint(0, len(s))
        env = F.empty_env()
        env['vars'] = {'va': enc(s), 'vb': enc(t), 'vn': enc(k)}
        a1 = F.binop('&', F.call('LEFT', V('va'), V('vn')), F.call('RIGHT', V('va'), F.binop('-', F.call('LEN', V('va')), V('vn'))))
        a2 = F.binop('=', F.call('MID', V('va'), F.num('1'), V('vn')), F.call('LEFT', V('va'), V('vn')))
        a3 = F.binop('=', F.call('LEN', F.binop('&', V('va'), V('vb'))), F.binop('+', F.call('LEN', V('va')), F.call('LEN', V('vb'))))
        a4 = F.call('CODE', F.call('CHAR', V('vc')))
        env['vars']['vc'] = enc(rng.choice([rng.randint(1, 255), rng.randint(256, 0xD7FF)]))
        for a in (a1, a2, a3, a4):
            out.append((a, env))
    return out


def rand_case(rng):
    k = rng.randrange(8)
    s = rstring(rng)
    if k <= 2:
        s = astral(rng, s)
    if k == 0:
        return {'f': rng.choice(['LEFT', 'RIGHT']), 'args': [enc(s), enc(rng.choice([0, 1, len(s), len(s) + 5, rng.randint(0, len(s) + 5), -1, -3]))]}
    if k == 1:
        return {'f': rng.choice(['LEFT', 'RIGHT', 'LEN']), 'args': [enc(s)]}
    if k == 2:
        return {'f': 'MID', 'args': [enc(s), enc(rng.randint(1, len(s) + 3)), enc(rng.choice([0, 1, rng.randint(0, len(s) + 5), -1]))]}
    if k in (3, 4):
        if s and rng.random() < 0.8:
            i = rng.randrange(len(s))
            old = s[i:i + rng.randint(1, 3)]
        else:
            old = rng.choice(['zq', 'Q', 'ab', '--'])
        new = rng.choice(['', '', 'x', 'yz', old.upper(), '漢', ' ', '\\n', '\\1', '\\', '\\g<0>', '$1', '&', '%s', '{0}', rstring(rng, 0, 4)])
        a = [enc(s), enc(old), enc(new)]
        if k == 4:
            a.append(enc(rng.randint(1, 4)))
        return {'f': 'SUBSTITUTE', 'args': a}
    if k == 5:
        items = []
        for _ in range(rng.randint(1, 6)):
            r = rng.random()
            items.append(enc(rstring(rng, 0, 8)) if r < 0.5 else enc(rng.randint(-99, 999)) if r < 0.7 else {'t': 'blank'} if r < 0.8
                         else enc([rstring(rng, 0, 4), rng.randint(0, 9), [rstring(rng, 0, 3)]]))
        return {'f': rng.choice(['CONCATENATE', 'CONCAT']), 'args': items}
    if k == 6:
        items = []
        for _ in range(rng.randint(1, 6)):
            r = rng.random()
            items.append(enc(rstring(rng, 1, 8) or 'x') if r < 0.6 else {'t': 'blank'} if r < 0.8 else enc([rstring(rng, 1, 4) or 'y', None, [rstring(rng, 1, 3) or 'z']]))
        return {'f': 'TEXTJOIN', 'args': [enc(rng.choice(['', ',', ', ', '--', '漢'])), enc(rng.random() < 0.5)] + items}
    return {'f': rng.choice(['CHAR', 'CHAR', 'CODE']), 'args': [enc(rng.randint(1, 255))] if rng.random() < 0.6 else [enc(rng.choice(ALPHA))]}


def main(tier, replay=None):
    run = core.Run('C15', tier, keep_replays=bool(replay))
    lib = core.load_library()
    names, bconst = core.builtins_constant()
    consts = {'Builtins': bconst}
    run.rule = ('one observation = one text-function call (text bound as a variable or written as a literal), one identity '
                'formula, or one (f(s), f(f(s))) pair; distinct by formula and bindings; non-trivial = all')
    run.assumptions = ['strings over ASCII letters/digits/punctuation/space, TAB, BEL, accented letters whose case mapping keeps '
                       'the length, CJK; characters outside the BMP in LEFT/RIGHT/MID/LEN and the identities', 'SUBSTITUTE: old text non-empty and not overlapping itself',
                       'TEXTJOIN items are text and blanks (empty text under ignore_empty is unspecified); CONCATENATE items are '
                       'text, integers, blanks and arrays of those', 'MID with a start below 1 is unspecified']
    quick = tier == 'quick'
    rng = random.Random(run.seed)
    if replay:
        c = json.load(open(replay))['case']
        if 'once' in c:
            o = idem_obs(lib, c['in']['f'], c['in']['s'])
            o['id'] = 1
            v = core.validate_obs(run, 'Trace_C15', [o], 'replay', consts)
            core.tally(run, [o], v, 'c15')
        else:
            h = F.Harnessed(lib, c['env'])
            o = h.parse(c['formula'])
            o.update({'id': 1, 'ast': c['ast'], 'env': c['env'], 'formula': c['formula'], 'checks': ['value'], 'in': c['in']})
            v = core.validate_obs(run, 'Trace_Eval', [o], 'replay', consts)
            core.tally(run, [o], v, 'c15')
        return run.finish()
    cf = os.path.join(core.scratch(), 'c15_cases.ndjson')
    r = core.run_tlc('MC_C15.tla', 'MC_C15_quick.cfg' if quick else 'MC_C15_thorough.cfg', env={'CASE_FILE': cf}, timeout=3000)
    run.add_tlc('MC_C15', r)
    cases = core.read_cases(cf)
    run.extra['tlc_cases'] = len(cases)
    relf = ('UPPER', 'LOWER', 'PROPER', 'TRIM', 'CLEAN')
    idem = []
    fn_cases = []
    for c in cases:
        if c['f'] in relf:
            idem.append(idem_obs(lib, c['f'], F.S(c['args'][0]['s'])))
        else:
            fn_cases.append(c)
    if quick and len(fn_cases) > 9000:
        fn_cases = rng.sample(fn_cases, 9000)
    fn_cases += [rand_case(rng) for _ in range(4000 if quick else 100000)]
    # letters that are already lower case but have a longer or different "case-folded" form: LOWER leaves them alone
    for _ in range(60 if quick else 2000):
        w = ''.join(rng.choice(['\u00df', '\u017f', '\u03c2', '\u0149', '\u01f0', '\u0390', '\ufb01', 'a', 'B', ' ', 'Z', '1']) for _ in range(rng.randint(1, 8)))
        fn_cases.append({'f': 'LOWER', 'args': [enc(w)]})
        fn_cases.append({'f': 'LEN', 'args': [enc(w)]})
    # text that spells an error code is text: as an argument, as a part, and as the whole result
    for code in ['#N/A', '#DIV/0!', '#VALUE!', '#REF!', '#NAME?', '#NUM!', '#NULL!', '#ERROR!', '#NOT_IMPLEMENTED!', '#GETTING_DATA']:
        h = len(code) // 2
        fn_cases += [{'f': 'LEFT', 'args': [enc(code), enc(99)]}, {'f': 'LEFT', 'args': [enc(code + 'x'), enc(len(code))]},
                     {'f': 'RIGHT', 'args': [enc('x' + code), enc(len(code))]}, {'f': 'MID', 'args': [enc('ab' + code + 'cd'), enc(3), enc(len(code))]},
                     {'f': 'LEN', 'args': [enc(code)]}, {'f': 'CONCATENATE', 'args': [enc(code[:h]), enc(code[h:])]},
                     {'f': 'CONCAT', 'args': [enc(code)]}, {'f': 'TEXTJOIN', 'args': [enc(code[h]), enc(False), enc(code[:h]), enc(code[h + 1:])]},
                     {'f': 'SUBSTITUTE', 'args': [enc(code.replace('#', '+')), enc('+'), enc('#')]},
                     {'f': 'SUBSTITUTE', 'args': [enc(code), enc('#'), enc('')]}]
        idem += [idem_obs(lib, 'UPPER', code.lower()), idem_obs(lib, 'LOWER', code), idem_obs(lib, 'TRIM', ' ' + code + '  '),
                 idem_obs(lib, 'CLEAN', code[:h] + '\x07' + code[h:]), idem_obs(lib, 'PROPER', code)]
    obs = fncases.observe(lib, fn_cases, twins=True)
    so = suite.observations({'LEFT','RIGHT','MID','LEN','UPPER','LOWER','PROPER','TRIM','CLEAN','SUBSTITUTE','CONCATENATE','CONCAT','TEXTJOIN','CHAR','CODE','LEFTB','RIGHTB','MIDB','LENB'}, len(obs) + 1)   # the same functions as the repository's own tests call them
    run.extra['calls_from_repository_tests'] = len(so)
    obs += so
    for a, env in identity_cases(rng, 1200 if quick else 30000):
        h = F.Harnessed(lib, env)
        text = F.render(a)
        o = h.parse(text)
        o.update({'id': len(obs) + 1, 'ast': a, 'env': env, 'formula': text, 'checks': ['value'], 'in': {'formula': text, 'vars': env['vars']}})
        obs.append(o)
    for _ in range(3000 if quick else 80000):
        s = rstring(rng)
        if rng.random() < 0.3:
            s = rng.choice([' ', '  ', '\t', '']) + s + rng.choice([' ', '   ', '\t ', ''])
        idem.append(idem_obs(lib, rng.choice(relf), s))
    CH = 25000
    for k in range(0, len(obs), CH):
        part = obs[k:k + CH]
        v = core.validate_obs(run, 'Trace_Eval', part, 'p%d' % (k // CH), consts)
        core.tally(run, part, v, 'c15', key=lambda o: o['formula'] + json.dumps(o['env']['vars'], sort_keys=True))
    for n, o in enumerate(idem, 1):
        o['id'] = n
    for k in range(0, len(idem), CH):
        part = idem[k:k + CH]
        v = core.validate_obs(run, 'Trace_C15', part, 'i%d' % (k // CH), consts)
        core.tally(run, part, v, 'c15')
    run.exhaustive = not quick
    run.samples = [{'formula': obs[9]['formula'], 'vars': obs[9]['env']['vars']}, idem[-1]['in']]
    return run.finish()
