# -*- coding: utf-8 -*-
"""C07 - comparisons form a consistent total order.  MC_C07: laws on the spec over a 25-value
pool (all pairs, all triples).  S2C: every pair x 6 operators on the real parser, operands as
variables and, where expressible, as literals.  C2S: seeded random pairs.  Verdicts: Trace_C07."""
import datetime
import json
import os
import random

from . import core
from .values import enc, dec, outcome, lit_number

OPS = ['<', '>', '=', '<=', '>=', '<>']


def literal(j):
    t = j['t']
    if t == 'num':
        s = lit_number({'t': 'num', 'n': abs(j['n']), 'd': j['d']})
        if s is None:
            return None
        return ('-' + s) if j['n'] < 0 else s
    if t == 'txt':
        s = ''.join(chr(c) for c in j['s'])
        return '"%s"' % s if '"' not in s and '\\' not in s else None
    if t == 'bool':
        return 'TRUE' if j['b'] else 'FALSE'
    if t == 'date' and j.get('ms', 0) == 0:
        return 'DATE(%d,%d,%d)' % (j['y'], j['mo'], j['d'])
    return None


def observe(lib, cases):
    obs = []
    p = lib.Parser()
    for n, c in enumerate(cases):
        if n % 1000 == 0:
            p = lib.Parser()
        a, b, op, mode = c['a'], c['b'], c['op'], c['mode']
        if mode == 'var':
            # 'us': microseconds the host's date-time carries beyond the millisecond (a serial is a double: they vanish in it)
            va, vb = dec(a), dec(b)
            if a.get('t') == 'date' and c.get('us'):
                va = va + datetime.timedelta(microseconds=c['us'][0])
            if b.get('t') == 'date' and c.get('us'):
                vb = vb + datetime.timedelta(microseconds=c['us'][1])
            p.set_variable('va', va)
            p.set_variable('vb', vb)
            f = 'va%svb' % op
        else:
            la, lb = literal(a), literal(b)
            if la is None or lb is None:
                continue
            f = '%s%s%s' % (la, op, lb)
        out = outcome(p.parse(f))
        obs.append({'id': len(obs) + 1, 'in': {'op': op, 'a': a, 'b': b}, 'formula': f, 'mode': mode,
                    'out': out})
    return obs


def raw_value(v):
    if v.get('t') == 'rawdt':
        return datetime.datetime.fromisoformat(v['iso'])
    if v.get('t') == 'rawint':
        return int(v['v'])
    return dec(v)


def laws_obs(lib, pairs):
    """all six operators on (a, b) and < > on (b, a): the consistency laws need no oracle"""
    out = []
    p = lib.Parser()
    def raw(v):
        if v.get('t') == 'rawdt':
            import datetime
            return datetime.datetime.fromisoformat(v['iso'])
        if v.get('t') == 'rawint':
            return int(v['v'])
        return dec(v)
    for a, b in pairs:
        p.set_variable('va', raw(a))
        p.set_variable('vb', raw(b))
        r = {}
        for name, f in (('lt', 'va<vb'), ('eq', 'va=vb'), ('gt', 'va>vb'), ('le', 'va<=vb'), ('ge', 'va>=vb'), ('ne', 'va<>vb'),
                        ('rlt', 'vb<va'), ('rgt', 'vb>va'), ('req', 'vb=va')):
            x = p.parse(f)
            r[name] = enc(x['result']) if x['error'] is None else {'t': 'err', 'c': x['error']}
        out.append({'kind': 'laws', 'in': {'op': 'laws', 'a': a, 'b': b}, 'r': r, 'out': {'res': {'t': 'blank'}, 'err': ''}, 'mode': 'var',
                    'formula': 'all six operators'})
    return out


def mixed_text(rng):
    w = rng.choice(['a', 'ab', 'total', 'x1', 'straße', 'é', 'zz'])
    return {'t': 'txt', 's': [ord(c) for c in ''.join(rng.choice([c.upper(), c.lower(), c]) for c in w)]}


def rand_value(rng):
    k = rng.choice(['num', 'num', 'date', 'txt', 'txt', 'bool', 'blank'])
    if k == 'num':
        d = rng.choice([1, 1, 2, 4, 8, 5, 10, 3])
        n = rng.choice([rng.randint(-50, 50), rng.randint(43000, 45000) * d + rng.randint(0, d - 1),
                        rng.randint(-10 ** 6, 10 ** 6)])
        return enc_q(n, d)
    if k == 'date':
        return {'t': 'date', 'y': rng.choice([1900, 1901, 1999, 2019, 2020, 2020, 9999]), 'mo': rng.randint(3, 12),
                'd': rng.randint(1, 28), 'ms': rng.choice([0, 0, 1, 43200000, rng.randint(0, 86399999)])}
    if k == 'txt':
        n = rng.choice([0, 1, 1, 2, 3, 6, 10])
        return {'t': 'txt', 's': [ord(rng.choice('abz019')) for _ in range(n)]}
    if k == 'bool':
        return {'t': 'bool', 'b': rng.random() < 0.5}
    return {'t': 'blank'}


def enc_q(n, d):
    from fractions import Fraction
    fr = Fraction(n, d)
    return {'t': 'num', 'n': fr.numerator, 'd': fr.denominator}


def big_cmp_obs(lib, rng, n):
    """integers no double can tell apart, as numbers on both sides of every comparison operator (Trace_Big)"""
    out = []
    p = lib.Parser()
    sg = lambda v: {'neg': v < 0, 'ds': [ord(c) for c in str(abs(v))]}
    for _ in range(n):
        a = rng.choice([2 ** 53, 2 ** 53 + 1, 10 ** 17 + 1, rng.randint(2 ** 53, 2 ** 70), 10 ** 22 + 1]) * rng.choice([1, 1, -1])
        b = rng.choice([a, a + 1, a - 1, a + 2, -a, rng.randint(-2 ** 70, 2 ** 70), a + rng.randint(-3, 3)])
        op = rng.choice(['<', '>', '=', '<>', '<=', '>='])
        p.set_variable('va', a)
        p.set_variable('vb', b)
        r = p.parse('va' + op + 'vb')
        truth = 'TRUE' if r['error'] is None and r['result'] is True else 'FALSE' if r['error'] is None and r['result'] is False else 'other'
        out.append({'kind': 'bigcmp', 'op': op, 'a': sg(a), 'b': sg(b), 'k': 0, 'truth': truth, 'formula': 'va' + op + 'vb',
                    'out': {'int': False, 'neg': False, 'ds': [48]}, 'out2': {'int': False, 'neg': False, 'ds': [48]},
                    'in': {'op': op, 'a': str(a), 'b': str(b)}})
    return out


def main(tier, replay=None):
    run = core.Run('C07', tier, keep_replays=bool(replay))
    lib = core.load_library()
    run.rule = ('one observation = one comparison formula a<op>b evaluated by Parser.parse with operands bound '
                'as variables or written as literals; distinct by (op, a, b); non-trivial = operands of '
                'different type or different value')
    run.assumptions = ['text under < and > is lower-case letters and digits (code point order = collation order)',
                       'dates compared with numbers are from 1 March 1900 on (C13 owns the earlier serials)',
                       'non-dyadic rationals are bound as the nearest float; order and equality of the pool are '
                       'preserved by that rounding']
    if replay:
        c = json.load(open(replay))['case']
        cases = [{'a': c['in']['a'], 'b': c['in']['b'], 'op': c['in']['op'], 'mode': c.get('mode', 'var')}]
        obs = observe(lib, cases)
        v = core.validate_obs(run, 'Trace_C07', obs, 'replay')
        core.tally(run, obs, v, 'c07')
        return run.finish()
    cf = os.path.join(core.scratch(), 'c07_cases.ndjson')
    r = core.run_tlc('MC_C07.tla', 'MC_C07.cfg', env={'CASE_FILE': cf})
    run.add_tlc('MC_C07', r)
    pairs = [json.loads(json.loads(l)) for l in open(cf) if l.strip()]
    run.extra['pool_pairs_from_tlc'] = len(pairs)
    cases = [{'a': p['a'], 'b': p['b'], 'op': op, 'mode': m} for p in pairs for op in OPS for m in ('var', 'lit')]
    rng = random.Random(run.seed)
    n = 8000 if tier == 'quick' else 150000
    for _ in range(n):
        a, b = rand_value(rng), rand_value(rng)
        if rng.random() < 0.15:
            b = a
        cases.append({'a': a, 'b': b, 'op': rng.choice(OPS), 'mode': rng.choice(['var', 'var', 'lit'])})
    obs = observe(lib, cases)
    lp = [(p['a'], p['b']) for p in pairs]
    for _ in range(1500 if tier == 'quick' else 40000):
        a = rand_value(rng) if rng.random() < 0.5 else mixed_text(rng)
        b = rand_value(rng) if rng.random() < 0.4 else mixed_text(rng)
        lp.append((a, b))
    # numbers a few units in the last place apart (and date-times a millisecond apart): still exactly one of < = > holds
    import math
    FL = lambda x: {'t': 'flt', 'r': repr(x)}
    for _ in range(300 if tier == 'quick' else 10000):
        x = rng.choice([0.1 + 0.2, 0.3, 1.1 * 3, 3.3, 43789.5, 43789.50000000001, 1e15 + 0.5, 2.0 ** 52 + 1, 1 / 3, 1e-300,
                        rng.uniform(-1e6, 1e6), rng.uniform(0, 1)])
        y = x
        for _ in range(rng.randint(0, 3)):
            y = math.nextafter(y, math.inf if rng.random() < 0.5 else -math.inf)
        lp.append((FL(x), FL(y)))
        lp.append((FL(y), FL(x)))
    # values that sit at the seams of the order: blanks against date-times whose serial is zero or below one, text spelled like
    # a logical or a number against logicals and numbers, the empty text, zero in its three types
    seam = [{'t': 'blank'}, enc(0), enc(False), enc(True), enc(''), enc(1), {'t': 'num', 'n': 0, 'd': 1, 'f': True},
            {'t': 'date', 'y': 1900, 'mo': 1, 'd': 1, 'ms': 0}, {'t': 'date', 'y': 1900, 'mo': 1, 'd': 1, 'ms': 43200000},
            {'t': 'date', 'y': 1900, 'mo': 1, 'd': 2, 'ms': 0}, {'t': 'date', 'y': 1900, 'mo': 2, 'd': 28, 'ms': 0},
            {'t': 'date', 'y': 1900, 'mo': 3, 'd': 1, 'ms': 0}] + \
           [enc(t) for t in ('TRUE', 'FALSE', 'true', 'False', 'WAHR', 'VRAI', 'FALSO', '1', '0', '-1', ' ', 'zzz', 'A', 'a', '#N/A')] + \
           [enc(t) for t in ('e\u0301', '\u00e9', '\u212b', '\u00c5', 'A\u030a', '\ufb01', 'fi', '\u1e9e', 'SS', 'ss', '\u00df')]    # one text in several Unicode forms
    for a in seam:
        for b in seam:
            lp.append((a, b))
    # the same pairs against the specification's order, under every operator
    for a in seam:
        for b in seam:
            for op in OPS:
                o = observe(lib, [{'a': a, 'b': b, 'op': op, 'mode': 'var'}])[0]
                o['id'] = len(obs) + 1
                obs.append(o)
    import datetime as _dt
    def DT(*a):
        return {'t': 'rawdt', 'iso': _dt.datetime(*a).isoformat()}
    odd = [DT(2024, 5, 17, 13, 45, 10, 15), DT(2024, 5, 17, 13, 45, 10, 16), DT(2024, 5, 17, 13, 45, 10, 0), DT(1899, 12, 31), DT(1900, 1, 1),
           DT(1900, 1, 1, 0, 0, 0, 1), DT(2020, 1, 1, 0, 0, 0, 500), DT(2020, 1, 1), {'t': 'rawint', 'v': str(2 ** 1024)},
           {'t': 'rawint', 'v': str(10 ** 400)}, {'t': 'rawint', 'v': str(-10 ** 400)}, {'t': 'rawint', 'v': str(2 ** 1024 + 1)},
           enc(45429.573032407585), enc(0), enc(1), {'t': 'blank'}, enc('x'), enc(True)]
    for a in odd:
        for b in odd:
            lp.append((a, b))
    # transitivity on triples of non-blank values (no oracle): date-times a microsecond apart with the serial of one of them
    # in the middle, seam values, near-equal floats
    trip = []
    tp = lib.Parser()
    for _ in range(200 if tier == 'quick' else 6000):
        d1 = _dt.datetime(rng.randint(1950, 2100), rng.randint(1, 12), rng.randint(1, 28), rng.randint(0, 23), rng.randint(0, 59), rng.randint(0, 59),
                          rng.randint(0, 999998))
        d2 = d1 + _dt.timedelta(microseconds=rng.choice([1, 1, 2, 0, 1000]))
        tp.set_variable('vd', d1)
        sv = tp.parse('N(vd)')['result']
        vals = [d1, sv, d2]
        rng.shuffle(vals)
        trip.append(vals)
    nb = [x for x in seam if x['t'] != 'blank']
    for _ in range(300 if tier == 'quick' else 8000):
        trip.append([raw_value(rng.choice(nb)) for _ in range(3)])
    t3 = []
    for a, b, c in trip:
        r = {}
        for name, x, y in (('ab', a, b), ('bc', b, c), ('ac', a, c)):
            tp.set_variable('vx', x)
            tp.set_variable('vy', y)
            for opn, op in (('eq', '='), ('lt', '<')):
                q = tp.parse('vx%svy' % op)
                r[name + '_' + opn] = enc(q['result']) if q['error'] is None else {'t': 'err', 'c': q['error']}
        t3.append({'kind': 'laws3', 'in': {'op': 'laws3', 'a': repr(a)[:60], 'b': repr(b)[:60], 'c': repr(c)[:60]}, 'r': r,
                   'out': {'res': {'t': 'blank'}, 'err': ''}, 'mode': 'var', 'formula': 'transitivity'})
    for o in t3:
        o['id'] = len(obs) + 1
        obs.append(o)
    # texts with a long common beginning (as long as a cell can hold, and longer) order as their ends do
    for n in (5, 255, 256, 32766, 32767, 32768, 40000):
        pre = ''.join(rng.choice('xyZ 9') for _ in range(n))
        for ta in ('', 'a', 'b', 'ab', 'B'):
            for tb in ('', 'a', 'b', 'ab', 'B'):
                tp.set_variable('vx', pre + ta)
                tp.set_variable('vy', pre + tb)
                r = {}
                for name, f in (('lt', 'vx<vy'), ('eq', 'vx=vy'), ('gt', 'vx>vy')):
                    q = tp.parse(f)
                    r[name] = enc(q['result']) if q['error'] is None else {'t': 'err', 'c': q['error']}
                obs.append({'id': len(obs) + 1, 'kind': 'longtext', 'in': {'op': 'longtext', 'a': '%d+%s' % (n, ta), 'b': '%d+%s' % (n, tb)},
                            'ta': [ord(c) for c in ta], 'tb': [ord(c) for c in tb], 'r': r,
                            'out': {'res': {'t': 'blank'}, 'err': ''}, 'mode': 'var', 'formula': 'vx<vy'})
    # a date against the serial the library itself gives for it: every day of January-March 1900 (where the serials carry the
    # spreadsheet's 29 February 1900), days spread over the calendar, and times of day that are exact binary fractions
    days = [_dt.datetime(1900, 1, 1) + _dt.timedelta(days=k) for k in range(0, 70)]
    days += [_dt.datetime(rng.randint(1900, 9998), rng.randint(1, 12), rng.randint(1, 28)) for _ in range(150 if tier == 'quick' else 5000)]
    days += [d + _dt.timedelta(hours=rng.choice([6, 12, 18, 3])) for d in days[::3]]
    for d in days:
        tp.set_variable('vd', d)
        q = tp.parse('N(vd)')
        sv = q['result']
        if q['error'] is not None or isinstance(sv, bool) or not isinstance(sv, (int, float)):
            continue
        tp.set_variable('vs', sv)
        r = {}
        for name, f in (('eq', 'vd=vs'), ('lt', 'vd<vs'), ('gt', 'vd>vs'), ('below', 'vs-0.5<vd'), ('above', 'vd<vs+0.5')):
            q = tp.parse(f)
            r[name] = enc(q['result']) if q['error'] is None else {'t': 'err', 'c': q['error']}
        obs.append({'id': len(obs) + 1, 'kind': 'selfserial', 'in': {'op': 'selfserial', 'a': d.isoformat(), 'b': repr(sv)}, 'r': r,
                    'out': {'res': {'t': 'blank'}, 'err': ''}, 'mode': 'var', 'formula': 'vd=N(vd)'})
    for o in laws_obs(lib, lp):
        o['id'] = len(obs) + 1
        obs.append(o)
    CH = 60000
    for k in range(0, len(obs), CH):
        part = obs[k:k + CH]
        v = core.validate_obs(run, 'Trace_C07', part, 'p%d' % (k // CH))
        core.tally(run, part, v, 'c07', nontrivial=lambda o: o['in']['a'] != o['in']['b'],
                   key=lambda o: json.dumps([o['in'], o['mode'], o.get('kind', '')], sort_keys=True))
    run.exhaustive = True
    big = big_cmp_obs(lib, random.Random(run.seed + 7), 400 if tier == 'quick' else 20000)
    for n, o in enumerate(big, 1):
        o['id'] = n
    v = core.validate_obs(run, 'Trace_Big', big, 'big')
    core.tally(run, big, v, 'c07-big')
    run.extra['big_integer_comparisons'] = len(big)
    run.samples = [obs[7], obs[len(obs) // 2], obs[-1]]
    return run.finish()
