# -*- coding: utf-8 -*-
"""C02 - evaluation is a pure, repeatable function of formula and bindings.
(a) histories: MC_C02 (reference + traceback-chain mechanism) exports every sequence of evaluation
    kinds up to H (successful, syntax/lexical errors, error values, unknown names, callbacks raising
    host exceptions or error values); each is replayed on a long-lived real parser, with debug on
    and off, then probed; Trace_Hist requires every evaluation to match XLEval for the parser's
    bindings and the outcome of the same formula on a fresh parser with the other debug setting.
(b) host values: lists handed in as variable values, cell/range setter values, custom-function
    results and arguments are snapshotted before and after (Trace_C02 'host').
(c) retention: live-object census after N, 2N, 4N, 8N evaluations (Trace_C02 'census')."""
import collections
import contextlib
import copy
import gc
import io
import json
import os
import random
import sys
import time

from . import core
from . import formula as F
from . import values
from .values import enc

N = F.num


def bindings():
    env = F.empty_env()
    env['vars'] = {'va': enc(3), 'vb': enc('qq'), 'vl': enc([3, 1, 2]), 'vd': {'t': 'date', 'y': 2019, 'mo': 11, 'd': 20, 'ms': 0}}
    env['funcs'] = {'BOOM': {'mode': 'exc', 'v': {'t': 'blank'}, 'i': 0},
                    'XLR': {'mode': 'raise', 'v': {'t': 'err', 'c': '#NUM!'}, 'i': 0},
                    'K': {'mode': 'const', 'v': enc(7), 'i': 0}}
    env['cellsets'] = [{'key': F.cps('A1'), 'vals': [enc(5)]}, {'key': F.cps('B2'), 'vals': [enc([[1, 2], [3, 4]])]}]
    env['raises'] = ['var:vraise']
    env['vars']['vraise'] = enc(1)
    return env


KIND = {
    'ok': F.binop('+', N('1'), F.binop('*', N('2'), F.var('va'))),
    'okcells': F.binop('+', F.call('SUM', F.cell('A1'), F.call('K')), F.cell('$a$1')),
    'syntax': {'raw': '1+*2'},
    'lexerr': {'raw': '1 ~ 2'},
    'errlit': F.binop('+', N('1'), F.errlit('#REF!')),
    'divzero': F.binop('/', F.var('va'), N('0')),
    'unknownvar': F.binop('+', F.var('nosuch'), N('1')),
    'unknownfn': F.call('SUM', N('1'), F.call('NOSUCHFN', N('2'))),
    'hostexc': F.binop('+', N('1'), F.call('BOOM', N('2'))),
    'listenerexc': F.binop('+', F.var('vraise'), N('1')),
    'cellexc': F.binop('+', F.cell('A1'), N('1')),            # with the cell listener raising (this time only)
    'rangeexc': F.call('SUM', F.rng('B1', 'C2'), F.cell('A1')),   # with the range listener raising
    'fnlistenerexc': F.call('SUM', F.call('K'), N('1')),      # with the callFunction listener raising for K
    'xlraise': F.binop('+', N('1'), F.call('XLR')),
    'trapped': F.call('IFERROR', F.call('SUM', F.binop('/', N('1'), N('0'))), F.var('va')),
    'empty': {'raw': ''},
    # a cell listener that has ANOTHER parser object evaluate something in passing (a workbook of several sheets)
    'othersheet': F.binop('+', F.binop('+', F.cell('A1'), F.var('va')), F.binop('*', F.call('K'), F.cell('$A$1'))),
    # dates against blanks under every operator: the conversion table is the same before and after
    'datediv': F.binop('/', F.var('vd'), F.var('NULL')),
    'blankdivdate': F.binop('/', F.var('NULL'), F.var('vd')),
    'dateplus': F.binop('+', F.var('vd'), F.var('NULL')),
    'datetimes': F.binop('*', F.var('vd'), F.var('NULL')),
    'blankminusdate': F.binop('-', F.var('NULL'), F.var('vd')),
    'dateminus': F.binop('-', F.var('vd'), N('1')),
    # values whose printed form is enormous (whatever debug output does with them, the outcome is the same)
    'bigvalue': F.binop('>', F.num('2^20000'), N('1')),
    # a sheet whose cells hold formulas: the cell listener evaluates another formula on the same parser, for every cell
    'sheet': F.binop('*', F.call('SUM', F.cell('A1'), F.binop('+', F.cell('$A$1'), F.cell('a1'))), N('2')),
}
PROBES = [KIND['bigvalue'], KIND['dateplus'], KIND['blankminusdate'], KIND['datetimes'], KIND['dateminus'], KIND['ok'], KIND['okcells'], KIND['cellexc'], KIND['rangeexc'], KIND['fnlistenerexc'], KIND['trapped'], KIND['divzero'], KIND['unknownvar'], KIND['syntax'],
          F.binop('&', F.var('vb'), F.call('K')), F.call('SUM', F.var('vl'), F.cell('B2')), KIND['xlraise']]


@contextlib.contextmanager
def quiet():
    old = sys.stderr
    sys.stderr = io.StringIO()
    try:
        yield
    finally:
        sys.stderr = old


class Long(object):
    def __init__(self, lib, debug):
        self.env = bindings()
        with quiet():
            self.h = F.Harnessed(lib, self.env, debug=debug)
        self.ev = []
        for name, v in sorted(self.env['vars'].items()):
            self.ev.append({'e': 'setvar', 'p': 'p1', 'name': name, 'v': v})
        for name, c in sorted(self.env['funcs'].items()):
            self.ev.append({'e': 'setfn', 'p': 'p1', 'name': name, 'c': c})
        self.ev.append({'e': 'listen', 'p': 'p1', 'kind': 'cell', 'sets': self.env['cellsets']})
        self.ev.append({'e': 'listen', 'p': 'p1', 'kind': 'raises', 'sets': self.env['raises']})
        # a second parser object lives in the same process and binds the same and other names differently:
        # "depends only on ... the variables, functions and listeners registered on that parser"
        self.decoy = lib.Parser()
        for name, v in DECOY_VARS:
            self.decoy.set_variable(name, values.dec(v))
            self.ev.append({'e': 'setvar', 'p': 'p2', 'name': name, 'v': v})
        for name, c in DECOY_FUNCS:
            self.decoy.set_function(name, (lambda c: lambda *a: values.dec(c['v']))(c))
            self.ev.append({'e': 'setfn', 'p': 'p2', 'name': name, 'c': c})
        sets = [{'key': F.cps('A1'), 'vals': [enc(12345)]}]
        self.decoy.on('callCellValue', lambda cell, setter: setter(12345))
        self.ev.append({'e': 'listen', 'p': 'p2', 'kind': 'cell', 'sets': sets})

    def setvar(self, name, v):
        self.h.p.set_variable(name, values.dec(v))
        self.ev.append({'e': 'setvar', 'p': 'p1', 'name': name, 'v': v})

    def setfn(self, name, c):
        self.h.p.set_function(name, self.h.custom(name, c))
        self.ev.append({'e': 'setfn', 'p': 'p1', 'name': name, 'c': c})

    def set_raises(self, tags):
        self.h.raises = set(tags)
        self.ev.append({'e': 'listen', 'p': 'p1', 'kind': 'raises', 'sets': list(tags)})

    def parse(self, f, solo=None):
        text = f['raw'] if 'raw' in f else F.render(f)
        with quiet():
            o = self.h.parse(text)
        o.update({'e': 'parse', 'p': 'p1', 'formula': text})
        o['ast'] = {'k': 'omit'} if 'raw' in f else f
        o['checks'] = [] if 'raw' in f else ['value', 'events', 'calls']
        if solo is not None:
            o['solo'] = solo
            o['checks'] = o['checks'] + ['solo']
        self.ev.append(o)
        return o


DECOY_VARS = [('va', enc(999)), ('vb', enc('zz')), ('nosuch', enc(1)), ('vl', enc([9])), ('NULL', enc(4))]
DECOY_FUNCS = [('K', {'mode': 'const', 'v': enc(1000), 'i': 0}), ('NOSUCHFN', {'mode': 'const', 'v': enc(5), 'i': 0}),
               ('ABS', {'mode': 'const', 'v': enc(-1), 'i': 0})]
STAMINA = [4000]
TRANSIENT = {'cellexc': ['cell:*'], 'rangeexc': ['range:*'], 'fnlistenerexc': ['fn:K']}
BASE_RAISES = ['var:vraise']


def solo_outcome(lib, f, debug, raises=(), cache={}):
    key = (json.dumps(f, sort_keys=True), debug, tuple(raises))
    if key not in cache:
        L = Long(lib, debug)
        if raises:
            L.set_raises(BASE_RAISES + list(raises))
        cache[key] = L.parse(f)['out']
    return cache[key]


REBIND = {
    # a binding changes between evaluations: later outcomes follow the new binding, nothing remembered from before
    'rebindvar': lambda L, n: L.setvar('va', enc(3 + n)),
    'rebindfn': lambda L, n: L.setfn('K', {'mode': 'const', 'v': enc(7 + n), 'i': 0}),
    'shadow': lambda L, n: L.setfn('SUM', {'mode': 'const', 'v': enc(1000 + n), 'i': 0}),
    'rebindtext': lambda L, n: L.setvar('vb', enc('qq%d' % n)),
}


def replay_history(lib, tid, kinds, debug):
    L = Long(lib, debug)
    step = 0
    rebound = False
    for k in kinds:
        step += 1
        if k in REBIND:
            rebound = True
            REBIND[k](L, step)
            for f in (KIND['ok'], KIND['okcells'], PROBES[-3]):    # use the rebound name straight away
                L.parse(f)
            continue
        if k == 'stamina':
            for kk in ('syntax', 'unknownfn', 'hostexc', 'divzero'):
                L.parse(KIND[kk], solo_outcome(lib, KIND[kk], not debug))
            text = F.render(KIND['okcells']) + '+SUM(1,ABS(-2),K())'
            with quiet():
                for _ in range(STAMINA[0]):
                    L.h.parse(text)
            continue
        if k == 'othersheet':
            def elsewhere(hh, payload):
                L.decoy.parse('va+K()+A1&vb')
                L.decoy.parse('nosuch2+1')
            L.h.hooks = {'cell': elsewhere, 'cell:post': elsewhere, 'var': elsewhere, 'call:K': elsewhere}
        if k == 'sheet':
            def nested(hh, payload):
                saved, hh.hooks = hh.hooks, {}
                try:
                    hh.parse(F.render(KIND['okcells']))
                    hh.parse('1+*2')
                finally:
                    hh.hooks = saved
            L.h.hooks = {'cell': nested, 'cell:post': nested}
        extra = TRANSIENT.get(k, [])
        if extra:      # a listener that fails this time only: the host's binding changes, then changes back
            L.set_raises(BASE_RAISES + extra)
        L.parse(KIND[k], None if rebound else solo_outcome(lib, KIND[k], not debug, extra))
        L.h.hooks = {}
        if extra:
            L.set_raises(BASE_RAISES)
    for f in PROBES:
        # the fresh-parser oracle applies while the bindings are the initial ones; after a rebinding the
        # evaluation is judged against XLEval for the bindings Trace_Hist carries
        L.parse(f, None if rebound else solo_outcome(lib, f, not debug))
    return {'tid': tid, 'ev': L.ev, 'case': {'history': kinds, 'debug': debug}}


# ------------------------------------------------------------------ host values

HOSTLISTS = [[3, 1, 2], [[1, 2], [3, 4]], ['b', None, 'a', 2.5], [2, 2, 1], [], [7], [[1, 2]]]
SCALARS = [2, 'a', 1]


def host_obs(lib, names, rng, quick):
    obs = []

    def one(text, hosts, mode):
        lists = [copy.deepcopy(x) for x in hosts]
        env = F.empty_env()
        p = lib.Parser()
        for i, L in enumerate(lists):
            if mode == 'var':
                p.set_variable('hv_%s' % 'abc'[i], L)       # (h1 would be a cell reference)
        if mode == 'cell':
            p.on('callCellValue', lambda c, done: done(lists[int(c.label[1:]) - 1]))
        if mode == 'range':
            p.on('callRangeValue', lambda a, b, done: done(lists[int(a.label[1:]) - 1]))
        if mode == 'fn':
            for i in range(len(lists)):
                p.set_function('HOST%d' % (i + 1), (lambda j: (lambda: lists[j]))(i))
        seen_args = []
        p.set_function('PEEK', lambda *a: (seen_args.append(a), a[0] if a else None)[1])
        before = [enc(x) for x in lists]
        # which object sits where: the host's lists hold the same objects afterwards (an equal replacement is a write too)
        reg = {}

        def ids(x, make):
            out = []
            for v in x:
                if isinstance(v, list):
                    out.append(ids(v, make))
                else:
                    if make:
                        reg.setdefault(id(v), len(reg) + 1)
                    out.append(reg.get(id(v), 0))
            return out
        idb = [ids(x, True) for x in lists]
        with quiet():
            p.parse(text)
        after = [enc(x) for x in lists]
        ida = [ids(x, False) for x in lists]
        obs.append({'kind': 'host', 'formula': text, 'mode': mode, 'before': before, 'after': after, 'idb': idb, 'ida': ida,
                    'in': {'formula': text, 'mode': mode, 'hosts': before}})

    def ref(mode, i):
        if mode == 'var':
            return 'hv_%s' % 'abc'[i - 1]
        return {'cell': 'H%d', 'range': 'H%d:H%d', 'fn': 'HOST%d()'}[mode] % ((i, i) if mode == 'range' else i)

    modes = ['var', 'cell', 'range', 'fn']
    for name in names:
        for mode in modes if not quick else [modes[1 + sum(map(ord, name)) % 3], 'var']:
            for hi in range(5):
                one('%s(%s)' % (name, ref(mode, 1)), [HOSTLISTS[hi]], mode)
            for hi in (0, 1, 3):
                for s in SCALARS:
                    one('%s(%s,%s)' % (name, ref(mode, 1), json.dumps(s)), [HOSTLISTS[hi]], mode)
                    one('%s(%s,%s)' % (name, json.dumps(s), ref(mode, 1)), [HOSTLISTS[hi]], mode)
                one('%s(%s,%s)' % (name, ref(mode, 1), ref(mode, 2)), [HOSTLISTS[hi], HOSTLISTS[2]], mode)
                one('%s(%s,%s)' % (name, ref(mode, 1), ref(mode, 2)), [HOSTLISTS[hi], HOSTLISTS[3]], mode)     # all numbers
                if hi == 0:
                    one('%s(%s,%s,%s)' % (name, ref(mode, 1), ref(mode, 2), ref(mode, 3)), [HOSTLISTS[0], HOSTLISTS[3], HOSTLISTS[5]], mode)
                    one('%s(%s,%s)' % (name, ref(mode, 1), ref(mode, 1)), [HOSTLISTS[hi]], mode)
                if not quick or hi == 0:
                    one('%s(%s,%s,%s)' % (name, ref(mode, 1), ref(mode, 2), 2), [HOSTLISTS[hi], HOSTLISTS[3]], mode)
                    one('%s(%s,2,%s)' % (name, ref(mode, 1), ref(mode, 2)), [HOSTLISTS[hi], HOSTLISTS[0]], mode)
    for mode in modes:
        a, b = ref(mode, 1), ref(mode, 2)
        for op in ['+', '-', '*', '/', '&', '=', '<', '<>']:
            for hi in (0, 1, 2, 3, 5, 6):
                one('%s%s%s' % (a, op, b), [HOSTLISTS[hi], HOSTLISTS[3]], mode)
                one('%s%s%s' % (b, op, a), [HOSTLISTS[hi], HOSTLISTS[3]], mode)
                one('%s%s2' % (a, op), [HOSTLISTS[hi]], mode)
                one('2%s%s' % (op, a), [HOSTLISTS[hi]], mode)
                one('%s%s{1,2}' % (a, op), [HOSTLISTS[hi]], mode)
                one('{1,2,3}%s%s' % (op, a), [HOSTLISTS[hi]], mode)
        for t in ['-%s', '{%s,1}', '{1;%s;%s}', 'PEEK(%s)', 'PEEK(%s,%s)', 'IF(1,%s,2)', 'SUM(PEEK(%s))+SUM(%s)',
                  'INDEX(%s,1)', 'LARGE(%s,1)', 'MEDIAN(%s)+MAX(%s)']:
            n = t.count('%s')
            one(t % tuple([a, b][:n] if n <= 2 else [a] * n), [HOSTLISTS[1], HOSTLISTS[0]][:max(n, 1)], mode)
        # a host list that holds error values the host made itself (equal to the library's, not the same objects)
        from hotxlfp.formulas import error as _E
        for t in ['%s', 'INDEX(%s,2)', 'IF(1,%s,2)', 'ISNA(INDEX(%s,2))', 'SUM(%s)', 'IFERROR(%s,0)', '{%s,1}', 'CHOOSE(1,%s)', 'COUNT(%s)',
                  'IFNA(INDEX(%s,2),0)', '%s&""', 'MATCH(3,%s,0)']:
            one(t % a, [[1, _E.XLError('#N/A'), 3.5, _E.XLError('#DIV/0!')]], mode)
            one(t % a, [[[1, 2.5], [_E.XLError('#REF!'), 4]]], mode)
    return obs


# ------------------------------------------------------------------ retention

def process_settings():
    """what later evaluations anywhere in the process depend on besides their parser"""
    import decimal
    import locale
    import warnings
    st = [('recursionlimit', sys.getrecursionlimit()), ('switchinterval', sys.getswitchinterval()),
          ('int_max_str_digits', sys.get_int_max_str_digits() if hasattr(sys, 'get_int_max_str_digits') else -1),
          ('decimal_prec', decimal.getcontext().prec), ('decimal_rounding', decimal.getcontext().rounding),
          ('locale', locale.setlocale(locale.LC_ALL)), ('TZ', os.environ.get('TZ', '')), ('tzname', time.tzname),
          ('float_repr_style', sys.float_repr_style), ('warning_filters', len(warnings.filters)),
          ('stdout', type(sys.stdout).__name__), ('excepthook', sys.excepthook is sys.__excepthook__), ('gc', gc.isenabled()),
          ('trace', sys.gettrace() is None), ('profile', sys.getprofile() is None)]
    return ['%s=%r' % kv for kv in st]


PROCESS_BATTERY = ['FACT(2000)&""', 'LEN(FACT(2000))', 'FACT(2000)', '2^9999&""', 'LEN(10^4000)', '"a"&10^4400', 'FACT(170)&""', '1/0', 'nosuch+1',
                   '1+*2', 'SUM(1,"x")', '(' * 300 + '1' + ')' * 300, 'SUM(' * 200 + '1' + ')' * 200, 'TEXTJOIN(",",TRUE,FACT(1500),FACT(1600))',
                   'YEAR("2020-02-03")', 'ROUND(2.5,0)', 'DEC2HEX(255)', 'CONCATENATE(FACT(1800),"x")', 'FACT(1800)=FACT(1800)', 'MAX(FACT(2000),1)']


def process_obs(lib):
    obs = []
    for debug in (False, True):
        p = lib.Parser(debug=debug)
        p.set_variable('va', 10 ** 4500)
        with quiet():
            p.parse('1+SUM(1,2)')      # (whatever a parser sets up on its first evaluation is set up now)
        for text in PROCESS_BATTERY + ['va&""', 'LEN(va)', 'va+1']:
            before = process_settings()
            with quiet():
                p.parse(text)
            obs.append({'kind': 'process', 'formula': text, 'debug': debug, 'settings_before': before, 'settings_after': process_settings(),
                        'in': {'kind': 'process', 'formula': text[:80], 'debug': debug}})
    return obs


def census():
    gc.collect()
    gc.collect()
    return len(gc.get_objects()), sys.getallocatedblocks()


DISTINCT = {      # a different formula on every evaluation: nothing may be kept per distinct text, name or operand
    'text operand': lambda i: '"order %07d"+1' % i,
    'date text': lambda i: 'YEAR("%04d-05-03")' % (1900 + i % 8000),
    'cell label': lambda i: 'A%d+1' % (i + 1),
    'unknown variable': lambda i: 'nosuch_%d+1' % i,
    'number': lambda i: '%d*2' % i,
    'unknown function': lambda i: 'NOFN%d(1)' % i,
    'string argument': lambda i: 'LEN("s%d")&UPPER("t%d")' % (i, i),
    'range': lambda i: 'SUM(B%d:C%d)' % (i + 1, i + 2),
    'syntax error': lambda i: '1+*%d' % i,
}


def census_obs(lib, quick):
    obs = []
    base = 40 if quick else 150
    for k, f in sorted(KIND.items()):
        for debug in (False, True):
            L = Long(lib, debug)
            if k in TRANSIENT:
                L.set_raises(BASE_RAISES + TRANSIENT[k])
            text = f['raw'] if 'raw' in f else F.render(f)
            series = []
            done = 0
            for target in (base, 2 * base, 4 * base, 8 * base):
                with quiet():
                    while done < target:
                        L.h.parse(text)
                        done += 1
                series.append(census())
            obs.append({'kind': 'census', 'formula': text, 'debug': debug, 'n': base, 'series': [x[0] for x in series],
                        'blocks': [x[1] for x in series], 'in': {'kind': k, 'debug': debug}})
    for k, gen in sorted(DISTINCT.items()):
        L = Long(lib, False)
        series = []
        done = 0
        for target in (base, 2 * base, 4 * base, 8 * base):
            with quiet():
                while done < target:
                    L.h.parse(gen(done))
                    done += 1
            series.append(census())
        obs.append({'kind': 'census', 'formula': gen(0) + ' ...', 'debug': False, 'n': base, 'series': [x[0] for x in series],
                    'blocks': [x[1] for x in series], 'in': {'kind': 'distinct: ' + k, 'debug': False}})
    return obs


def main(tier, replay=None):
    run = core.Run('C02', tier, keep_replays=bool(replay))
    lib = core.load_library()
    names, bconst = core.builtins_constant()
    consts = {'Builtins': bconst}
    run.rule = ('histories: sequence of evaluation kinds on a long-lived parser then 9 probes, debug on/off, distinct by '
                '(kinds, debug); host observations: distinct by (formula, injection mode, lists); census: one per (formula '
                'kind, debug); non-trivial = all')
    run.assumptions = ['NOW, TODAY, RAND, RANDBETWEEN are not in the history/probe pools',
                       'the census is a measurement (gc.get_objects after gc.collect) at N, 2N, 4N, 8N evaluations; TLA+ states '
                       'the bound: growth between the later points is at most Slack objects, independent of N',
                       'debug output is captured and discarded',
                       'interpreter settings (recursion limit, integer-to-text digit limit, decimal context, locale, time zone, ...) are '
                       'compared around single evaluations after a first evaluation on that parser: a setting an evaluation leaves '
                       'changed is one that later outcomes of any parser depend on']
    quick = tier == 'quick'
    if replay:
        case = json.load(open(replay))['case']
        if 'history' in case:
            core.validate_hist(run, [replay_history(lib, 1, case['history'], case['debug'])], 'replay', consts, engine='c02')
        else:
            raise core.MachineryError('host/census observations are replayed by re-running ./check C02')
        return run.finish()
    cf = os.path.join(core.scratch(), 'c02_cases.ndjson')
    r = core.run_tlc('MC_C02.tla', 'MC_C02_quick.cfg' if quick else 'MC_C02_thorough.cfg', env={'CASE_FILE': cf})
    run.add_tlc('MC_C02', r)
    r2 = core.run_tlc('MC_C02.tla', 'MC_C02_mech.cfg', env={'CASE_FILE': os.devnull}, must_pass=False)
    if 'NoRetention' not in r2.invariant_violated:
        raise core.MachineryError('mechanism variant (no clearing of error tracebacks) was not refuted')
    run.extra['mechanism_without_traceback_clearing_refuted'] = True
    hists = [c['hist'] for c in core.read_cases(cf)]
    run.extra['tlc_histories'] = len(hists)
    rng = random.Random(run.seed)
    if quick:
        hists = rng.sample(hists, 500)
    # the traces are replayed and validated chunk by chunk: the whole thorough tier at once held over 20 GB of events
    CH = 400 if quick else 2000
    count = [0]
    first = []
    pending = []

    def flush(force=False):
        while len(pending) >= CH or (force and pending):
            part = pending[:CH]
            del pending[:CH]
            core.validate_hist(run, part, 'p%d' % flush.n, consts, engine='c02')
            flush.n += 1
    flush.n = 0

    def add(h, debug):
        count[0] += 1
        t = replay_history(lib, count[0], h, debug)
        if not first:
            first.append(t['case'])
        pending.append(t)
        flush()

    for h in hists:
        add(h, bool(count[0] % 2))
        if count[0] % 3 == 0:       # the same history with a rebinding after its first evaluation
            h2 = [h[0], rng.choice(sorted(REBIND))] + list(h[1:])
            add(h2, bool(count[0] % 2))
    kinds = sorted(KIND) + sorted(REBIND)
    for _ in range(60 if quick else 1500):      # longer random histories
        h = [rng.choice(kinds) for _ in range(rng.randint(5, 30))]
        add(h, rng.random() < 0.5)
    # stamina: a long-lived parser after failed evaluations and tens of thousands of function calls still answers as a fresh one
    STAMINA[0] = 4000 if quick else 40000
    for debug in (False, True):
        add(['stamina'], debug)
    flush(force=True)
    obs = host_obs(lib, names, rng, quick) + process_obs(lib) + census_obs(lib, quick)
    for n, o in enumerate(obs, 1):
        o['id'] = n
    run.extra['host_observations'] = sum(1 for o in obs if o['kind'] == 'host')
    run.extra['census_series'] = [(o['formula'], o['debug'], o['series']) for o in obs if o['kind'] == 'census'][:40]
    CH = 30000
    for k in range(0, len(obs), CH):
        part = obs[k:k + CH]
        v = core.validate_obs(run, 'Trace_C02', part, 'h%d' % (k // CH), {'Slack': '60'})
        core.tally(run, part, v, 'c02')
    run.exhaustive = True
    run.samples = [{'case': first[0]}, {'host': obs[10]['in']}, {'census': obs[-1]['in'], 'series': obs[-1]['series']}]
    return run.finish()
