# -*- coding: utf-8 -*-
"""Common machinery: scratch copy of the tree under test, TLC runner, evidence,
known findings, violations/replays.  Python here only drives and records; every
verdict is produced by TLC from the TLA+ specification."""
import atexit
import hashlib
import json
import os
import re
import shutil
import subprocess
import sys
import tempfile
import time

VERIF = os.path.dirname(os.path.dirname(os.path.abspath(__file__)))
SPEC = os.path.join(VERIF, 'spec')
REPO = os.environ.get('VERIF_REPO', '/repo')
JAR = '/opt/veriftools/tla/tla2tools.jar:/opt/veriftools/tla/CommunityModules-deps.jar'
WORKERS = int(os.environ.get('VERIF_WORKERS', '16'))


class MachineryError(Exception):
    """Tool failure (exit 2) - never a verdict about the code."""


_scratch = None


def scratch():
    global _scratch
    if _scratch is None:
        _scratch = tempfile.mkdtemp(prefix='hotxlfp_verif_')
        atexit.register(shutil.rmtree, _scratch, True)
    return _scratch


_lib = None


def load_library():
    """Copy /repo/hotxlfp (working tree) to the scratch dir and import it from
    there, so ply never writes into /repo and the check sees current sources."""
    global _lib
    if _lib is not None:
        return _lib
    dst = os.path.join(scratch(), 'lib')
    os.makedirs(dst)
    shutil.copytree(os.path.join(REPO, 'hotxlfp'), os.path.join(dst, 'hotxlfp'),
                    ignore=shutil.ignore_patterns('__pycache__', '*.pyc'))
    for f in ('SUPPORTED_FORMULAS.md',):
        if os.path.exists(os.path.join(REPO, f)):
            shutil.copy(os.path.join(REPO, f), dst)
    for k in list(sys.modules):
        if k == 'hotxlfp' or k.startswith('hotxlfp.'):
            del sys.modules[k]
    sys.path.insert(0, dst)
    os.environ.setdefault('HOTXLFP_VERIF', '1')
    try:
        import hotxlfp  # noqa
    except BaseException as e:  # the tree does not even import
        raise MachineryError('cannot import hotxlfp from working tree: %r' % (e,))
    _lib = hotxlfp
    return hotxlfp


def lib_path():
    load_library()
    return os.path.join(scratch(), 'lib')


# --------------------------------------------------------------------------- TLC

class TLCResult(object):
    def __init__(self, out, rc, wall):
        self.out = out
        self.rc = rc
        self.wall = wall
        self.generated = self.distinct = 0
        m = re.findall(r'(\d[\d,]*) states generated, (\d[\d,]*) distinct states found', out)
        if m:
            self.generated = int(m[-1][0].replace(',', ''))
            self.distinct = int(m[-1][1].replace(',', ''))
        self.ok = ('Model checking completed. No error has been found' in out) or \
                  ('Finished computing' in out and 'Error' not in out and rc == 0)
        self.invariant_violated = re.findall(r'Error: Invariant (\S+) is violated', out)
        self.property_violated = re.findall(r'Error: Action property (\S+) is violated', out)
        self.prints = []

    def printed(self):
        """Values printed by PrintT, one per line, as raw text lines."""
        return [ln for ln in self.out.splitlines() if ln.startswith('<<') or ln.startswith('"')]


def run_tlc(module, cfg, env=None, workers=None, timeout=3600, simulate=None, extra=(),
            must_pass=True, cwd=SPEC, deadlock=False):
    md = tempfile.mkdtemp(prefix='md_', dir=scratch())
    cmd = ['java', '-XX:+UseParallelGC', '-Xss64m', '-Xmx%s' % os.environ.get('VERIF_TLC_HEAP', '10g'), '-cp', JAR, 'tlc2.TLC',
           '-workers', str(workers or WORKERS), '-metadir', md, '-noGenerateSpecTE',
           '-config', cfg]
    if simulate:
        cmd += ['-simulate', simulate]
    cmd += list(extra) + [module]
    e = dict(os.environ)
    e.update(env or {})
    t0 = time.time()
    try:
        p = subprocess.run(cmd, cwd=cwd, env=e, stdout=subprocess.PIPE, stderr=subprocess.STDOUT,
                           timeout=timeout, universal_newlines=True)
    except subprocess.TimeoutExpired:
        subprocess.call(['pkill', '-f', md])
        raise MachineryError('TLC timed out after %ss on %s/%s' % (timeout, module, cfg))
    finally:
        shutil.rmtree(md, True)
    r = TLCResult(p.stdout, p.returncode, time.time() - t0)
    if must_pass and not (r.rc == 0 and 'No error has been found' in r.out or
                          (simulate and r.rc == 0)):
        lines = r.out.splitlines()
        first = next((i for i, ln in enumerate(lines) if ln.startswith('Error:') or 'Exception' in ln), max(0, len(lines) - 30))
        tail = '\n'.join(lines[first:first + 14] + ['...'] + lines[-6:])
        raise MachineryError('TLC failed on %s/%s (rc=%s):\n%s' % (module, cfg, r.rc, tail))
    return r


GENERATED_DEPS = ('XLLR.tla', 'MC_LR.tla')      # extend LRTabGen, which harness/lrtab.py writes from the tree under test


def _sany(f, cwd):
    p = subprocess.run(['java', '-cp', JAR, 'tla2sany.SANY', f], cwd=cwd, stdout=subprocess.PIPE, stderr=subprocess.STDOUT,
                       universal_newlines=True)
    if p.returncode != 0 or 'rror' in p.stdout.replace('errors: 0', ''):
        if 'Semantic errors' in p.stdout or 'Parse Error' in p.stdout or 'Fatal errors' in p.stdout or p.returncode != 0:
            return p.stdout[-2000:]
    return None


def sany_all():
    bad = []
    for f in sorted(os.listdir(SPEC)):
        if f.endswith('.tla') and f not in GENERATED_DEPS:
            out = _sany(f, SPEC)
            if out:
                bad.append((f, out))
    # the LR modules are checked next to the table module generated from the tree under test (as C04 runs them); when no
    # tables can be taken out of the tree they are left to C04, which then skips its LR sub-check
    try:
        from . import lrtab
        tabs = lrtab.extract(load_library())
        d = os.path.join(scratch(), 'sany_lr')
        os.makedirs(d, exist_ok=True)
        for f in os.listdir(SPEC):
            if f.endswith('.tla'):
                shutil.copy(os.path.join(SPEC, f), d)
        with open(os.path.join(d, 'LRTabGen.tla'), 'w') as fh:
            fh.write(lrtab.module(tabs))
    except Exception:
        return bad
    for f in GENERATED_DEPS:
        out = _sany(f, d)
        if out:
            bad.append((f, out))
    return bad


# ------------------------------------------------------------------ TLA+ printed values

def parse_tla(s):
    """Parse a TLA+ value as printed by PrintT (tuples, records, strings, ints, bools, sets)."""
    pos = [0]
    n = len(s)

    def ws():
        while pos[0] < n and s[pos[0]] in ' \t\r\n':
            pos[0] += 1

    def val():
        ws()
        c = s[pos[0]]
        if s.startswith('<<', pos[0]):
            pos[0] += 2
            out = []
            ws()
            if s.startswith('>>', pos[0]):
                pos[0] += 2
                return out
            while True:
                out.append(val())
                ws()
                if s.startswith('>>', pos[0]):
                    pos[0] += 2
                    return out
                assert s[pos[0]] == ',', (s, pos[0])
                pos[0] += 1
        if c == '{':
            pos[0] += 1
            out = []
            ws()
            if s[pos[0]] == '}':
                pos[0] += 1
                return out
            while True:
                out.append(val())
                ws()
                if s[pos[0]] == '}':
                    pos[0] += 1
                    return out
                assert s[pos[0]] == ','
                pos[0] += 1
        if c == '[':
            pos[0] += 1
            out = {}
            while True:
                ws()
                m = re.compile(r'[A-Za-z_0-9]+').match(s, pos[0])
                key = m.group()
                pos[0] = m.end()
                ws()
                assert s.startswith('|->', pos[0]), (s, pos[0])
                pos[0] += 3
                out[key] = val()
                ws()
                if s[pos[0]] == ']':
                    pos[0] += 1
                    return out
                assert s[pos[0]] == ','
                pos[0] += 1
        if c == '"':
            i = pos[0] + 1
            buf = []
            while s[i] != '"':
                if s[i] == '\\':
                    i += 1
                    buf.append({'n': '\n', 't': '\t'}.get(s[i], s[i]))
                else:
                    buf.append(s[i])
                i += 1
            pos[0] = i + 1
            return ''.join(buf)
        m = re.compile(r'-?\d+').match(s, pos[0])
        if m:
            pos[0] = m.end()
            return int(m.group())
        m = re.compile(r'TRUE|FALSE').match(s, pos[0])
        if m:
            pos[0] = m.end()
            return m.group() == 'TRUE'
        m = re.compile(r'[A-Za-z_][A-Za-z_0-9]*').match(s, pos[0])
        if m:
            pos[0] = m.end()
            return m.group()
        raise ValueError('cannot parse TLA+ value at %d: %r' % (pos[0], s[pos[0]:pos[0] + 40]))

    return val()


def printed_values(out, tag=None):
    """All PrintT'ed tuples in TLC output (multi-line values joined by bracket matching)."""
    vals = []
    buf = None
    depth = 0
    for ln in out.splitlines():
        if buf is None:
            if not ln.startswith('<<'):
                continue
            buf = ''
            depth = 0
        buf += ln + ' '
        depth += ln.count('<<') - ln.count('>>')
        if depth <= 0:
            try:
                v = parse_tla(buf)
                if tag is None or (v and v[0] == tag):
                    vals.append(v)
            except Exception:
                pass
            buf = None
    return vals


# ------------------------------------------------------------------ functional validation

def _finite(x):
    """JSON has no NaN / Infinity: a float that is not finite travels as its spelling"""
    if isinstance(x, float) and (x != x or x in (float('inf'), float('-inf'))):
        return repr(x)
    if isinstance(x, dict):
        return {k: _finite(v) for k, v in x.items()}
    if isinstance(x, (list, tuple)):
        return [_finite(v) for v in x]
    return x


def dumps(o):
    try:
        return json.dumps(o, ensure_ascii=True, allow_nan=False)
    except ValueError:
        return json.dumps(_finite(o), ensure_ascii=True, allow_nan=False)


def validate_obs(run, module, obs, label='obs', constants=None, timeout=3000):
    """obs: list of dicts with unique integer 'id'.  Returns {id: verdict tuple} as decided
    by TLC running the trace specification <module> (which EXTENDS TraceKit)."""
    if not obs:
        return {}
    tf = os.path.join(scratch(), '%s_%s_%d.ndjson' % (module, label, len(os.listdir(scratch()))))
    with open(tf, 'w') as f:
        for o in obs:
            f.write(dumps(o) + '\n')
    devs = sorted(set(fd['deviation'] for fd in run.findings.for_property(run.pid)))
    cfg = os.path.join(scratch(), '%s_%s.cfg' % (module, label))
    with open(cfg, 'w') as f:
        f.write('SPECIFICATION KSpec\nINVARIANT Inv\nCHECK_DEADLOCK FALSE\nCONSTANTS\n')
        f.write('  OpenDevs = {%s}\n' % ', '.join('"%s"' % d for d in devs))
        for k, v in (constants or {}).items():
            f.write('  %s = %s\n' % (k, v))
    r = run_tlc(module + '.tla', cfg, env={'TRACE_FILE': tf}, timeout=timeout)
    run.add_tlc('%s[%s]' % (module, label), r)
    verdicts = {}
    for v in printed_values(r.out, 'V'):
        verdicts[v[1]] = tuple(v[2:])
    missing = [o['id'] for o in obs if o['id'] not in verdicts]
    if missing:
        raise MachineryError('%s: no verdict for %d observations (first id %s)' % (module, len(missing), missing[0]))
    return verdicts


def validate_hist(run, traces, label='hist', constants=None, timeout=3000, engine='hist', parsers=('p1', 'p2', 'p3')):
    """traces: list of {'tid', 'ev', 'case'}; validated by Trace_Hist.  Book-keeps and reports."""
    if not traces:
        return
    tf = os.path.join(scratch(), 'hist_%s_%d.ndjson' % (label, len(os.listdir(scratch()))))
    with open(tf, 'w') as f:
        for t in traces:
            f.write(dumps({'tid': t['tid'], 'ev': t['ev']}) + '\n')
    cfg = os.path.join(scratch(), 'hist_%s.cfg' % label)
    with open(cfg, 'w') as f:
        f.write('SPECIFICATION HSpec\nINVARIANT Verdict\nCHECK_DEADLOCK FALSE\nCONSTANTS\n')
        f.write('  Parsers = {%s}\n' % ', '.join('"%s"' % x for x in parsers))
        for k, v in (constants or {}).items():
            f.write('  %s = %s\n' % (k, v))
    r = run_tlc('Trace_Hist.tla', cfg, env={'TRACE_FILE': tf}, timeout=timeout)
    run.add_tlc('Trace_Hist[%s]' % label, r)
    acc, rej = set(), {}
    for v in printed_values(r.out):
        if v[0] == 'ACC':
            acc.add(v[1])
        elif v[0] == 'REJ':
            rej[v[1]] = v[2]
    for t in traces:
        run.traces += 1
        run.evaluations += sum(1 for e in t['ev'] if e['e'] == 'parse')
        run.distinct.add(hashlib.sha1(json.dumps(t['case'], sort_keys=True).encode()).digest()[:12])
        if t['tid'] in acc:
            continue
        if t['tid'] not in rej:
            raise MachineryError('Trace_Hist printed no verdict for history %s' % t['tid'])
        why = rej[t['tid']]
        first = why[0]
        e = t['ev'][first[0] - 1]
        run.violation(t['case'], 'bad: history event %d (%s %s) fails clauses %s | observed %s' % (
            first[0], e['e'], e.get('formula', e.get('name', '')), first[1:],
            json.dumps(e.get('out', e.get('tries', '')))[:300]), engine=engine)


def tally(run, obs, verdicts, engine, nontrivial=None, key=None):
    """Book-keeping common to the functional checks."""
    for o in obs:
        v = verdicts[o['id']]
        run.traces += 1
        run.evaluations += 1
        k = key(o) if key else json.dumps(o['in'], sort_keys=True)
        if nontrivial is None or nontrivial(o):
            run.distinct.add(hashlib.sha1(k.encode()).digest()[:12])
        if v[0] == 'ok':
            continue
        if v[0] == 'dev':
            run.known_finding(v[1])
            continue
        case = {k2: o[k2] for k2 in o if k2 not in ('id',)}
        run.violation(case, 'bad: ' + ' '.join(str(x) for x in v[1:]) + ' | observed ' +
                      json.dumps(o.get('out'))[:300], engine=engine)


# ------------------------------------------------------------------ findings

class Findings(object):
    """known_findings.txt: 'finding:' lines are open deviations (named actions of
    spec/Deviations), 'fixed:' lines are documentation only."""

    def __init__(self, path=None):
        self.open = []   # dicts: property, deviation, witness (json), what
        self.fixed = []
        path = path or os.path.join(VERIF, 'known_findings.txt')
        if not os.path.exists(path):
            return
        for ln in open(path, encoding='utf-8'):
            ln = ln.strip()
            if ln.startswith('finding:'):
                m = re.match(r'finding:\s+property=(\S+)\s+deviation=(\S+)\s+witness=(\{.*?\})\s+what=(.*)$', ln)
                if not m:
                    raise MachineryError('malformed finding line: ' + ln)
                self.open.append({'property': m.group(1), 'deviation': m.group(2),
                                  'witness': json.loads(m.group(3)), 'what': m.group(4)})
            elif ln.startswith('fixed:'):
                self.fixed.append(ln)

    def for_property(self, pid):
        return [f for f in self.open if f['property'] == pid]


# ------------------------------------------------------------------ run bookkeeping

class Run(object):
    def __init__(self, pid, tier, level='model_checking', keep_replays=False):
        if not keep_replays:
            shutil.rmtree(os.path.join(VERIF, 'replays', pid), True)
        self.pid = pid
        self.tier = tier
        self.seed = int(os.environ.get('VERIF_SEED', '0') or 0)
        self.level = level
        self.t0 = time.time()
        self.states = 0
        self.transitions = 0
        self.traces = 0
        self.evaluations = 0
        self.distinct = set()
        self.samples = []
        self.violations = []     # (case, verdict)
        self.known = {}          # deviation -> count
        self.assumptions = []
        self.extra = {}
        self.tlc_runs = []
        self.exhaustive = False
        self.rule = ''
        self.findings = Findings()

    def add_tlc(self, name, r):
        self.states += r.distinct
        self.transitions += r.generated
        self.tlc_runs.append({'model': name, 'distinct_states': r.distinct,
                              'states_generated': r.generated, 'wall_s': round(r.wall, 1)})

    def violation(self, case, verdict, engine=''):
        self.violations.append((case, verdict))
        d = os.path.join(VERIF, 'replays', self.pid)
        os.makedirs(d, exist_ok=True)
        blob = json.dumps(case, sort_keys=True, ensure_ascii=True)
        path = os.path.join(d, hashlib.sha1(blob.encode()).hexdigest()[:16] + '.json')
        with open(path, 'w') as f:
            json.dump({'property': self.pid, 'engine': engine, 'case': case, 'verdict': verdict},
                      f, indent=1, sort_keys=True)
        if len(self.violations) <= 25:
            print('VIOLATION property=%s replay=%s' % (self.pid, path))
            print('  verdict: %s' % (verdict,))
            sys.stdout.flush()
        return path

    def known_finding(self, deviation):
        self.known[deviation] = self.known.get(deviation, 0) + 1

    def finish(self, coverage_extra=None):
        for f in self.findings.for_property(self.pid):
            n = self.known.get(f['deviation'], 0)
            if n:
                print('KNOWN-FINDING: property=%s %s [%s, %d observations] witness=%s' % (
                    self.pid, f['what'], f['deviation'], n, json.dumps(f['witness'])))
        cov = {
            'states': max(self.states, 1),
            'transitions': max(self.transitions, 1),
            'traces_validated_against_impl': self.traces,
            'evaluations': max(self.evaluations, 1),
            'distinct_nontrivial': len(self.distinct) if self.distinct else self.extra.get('distinct_nontrivial', 0),
            'rule': self.rule,
            'samples': self.samples[:8] or ['(none)'],
            'exhaustive': self.exhaustive,
            'tlc_runs': self.tlc_runs,
            'known_finding_observations': self.known,
        }
        cov.update(self.extra)
        cov.update(coverage_extra or {})
        ev = {'property_id': self.pid, 'tier': self.tier, 'seed': self.seed, 'level': self.level,
              'coverage': cov, 'assumptions': self.assumptions,
              'wall_s': round(time.time() - self.t0, 2), 'violations': len(self.violations)}
        # evidence/ describes the tree at /repo; a run against another tree (VERIF_REPO: seeded or behaviour-preserving changes)
        # leaves its record elsewhere
        edir = 'evidence' if os.path.realpath(os.environ.get('VERIF_REPO', '/repo')) == '/repo' else 'evidence_other'
        os.makedirs(os.path.join(VERIF, edir), exist_ok=True)
        with open(os.path.join(VERIF, edir, self.pid + '.json'), 'w') as f:
            json.dump(ev, f, indent=1, sort_keys=True, default=str)
        if len(self.violations) > 25:
            print('(%d further violations not listed)' % (len(self.violations) - 25))
        print('%s %s: %d violations, %d traces/observations validated, %d TLC states, %.1fs' % (
            self.pid, self.tier, len(self.violations), self.traces, self.states,
            time.time() - self.t0))
        return 1 if self.violations else 0


def builtins_constant():
    """The documented function names, read from SUPPORTED_FORMULAS.md of the tree under test,
    as a TLA+ set literal for the Builtins constant."""
    names = []
    p = os.path.join(REPO, 'SUPPORTED_FORMULAS.md')
    sect = 0
    for ln in open(p, encoding='utf-8'):
        if ln.startswith('#'):
            sect += 1
            continue
        if sect == 1 and ln.startswith('* '):
            names.append(ln[2:].strip())
    if len(names) < 100:
        raise MachineryError('could not read the supported names from SUPPORTED_FORMULAS.md')
    return names, '{%s}' % ', '.join('"%s"' % n for n in names)


def read_cases(path):
    seen = set()
    out = []
    for ln in open(path):
        ln = ln.strip()
        if not ln or ln in seen:
            continue
        seen.add(ln)
        out.append(json.loads(json.loads(ln)))
    return out
