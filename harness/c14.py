# -*- coding: utf-8 -*-
"""C14 - date and time functions agree with the proleptic Gregorian calendar.  MC_Date checks the
calendar, weekday, DATEDIF and EDATE laws on XLDate/XLDateFn for every day in the bound.
Conformance (Trace_Date): YEAR/MONTH/DAY of DATE(y,m,d), of whole-day serials and WEEKDAY 1..3 for
every day swept; HOUR/MINUTE/SECOND of TIME and of ISO text; DATE with years 0..1899; DAYS and
DATEDIF d/m/y/ym over products of boundary dates and random pairs (both orders); EDATE with offsets
to +-120000 months; WEEKDAY with unsupported numbering types."""
import datetime
import itertools
import json
import os
import random

from . import core, dates


def _days_chunk(ns):
    lib = core.load_library()
    p = lib.Parser()
    return [dates.day_obs(p, n) for n in ns]


def boundary_dates():
    out = []
    for y in (1900, 1901, 1903, 1904, 1999, 2000, 2001, 2019, 2020, 2100, 2400, 9998, 9999):
        for m, d in ((1, 1), (1, 31), (2, 28), (2, 29), (3, 1), (3, 31), (4, 30), (6, 15), (8, 31), (11, 30), (12, 31)):
            try:
                dt = datetime.datetime(y, m, d)
            except ValueError:
                continue
            if dt >= datetime.datetime(1900, 3, 1):
                out.append(dt)
    return out


def main(tier, replay=None):
    run = core.Run('C14', tier, keep_replays=bool(replay))
    lib = core.load_library()
    p = lib.Parser()
    run.rule = ('one observation per day / time / ISO text / date pair / (date, month offset); distinct by input; non-trivial = all')
    run.assumptions = ['serials only from 1 March 1900 (C13 owns the serials before); YEAR/MONTH/DAY/WEEKDAY of dates also for January and February 1900', 'DAYS with start after end may be the negative '
                       'difference or #NUM!', 'WEEKDAY numbering types other than 1-3 (those of newer Excel versions, 11..17 and 21, included) must give #NUM!',
                       'ISO text is yyyy-mm-ddThh:mm:ss or with a space']
    quick = tier == 'quick'
    if replay:
        c = json.load(open(replay))['case']
        i, k = c['in'], c['kind']
        D = lambda x: datetime.datetime(x['y'], x['mo'], x['d'])
        o = {'day': lambda: dates.day_obs(p, i['n']), 'time': lambda: dates.time_obs(p, i['h'], i['m'], i['s']),
             'iso': lambda: dates.iso_obs(p, i['y'], i['mo'], i['d'], i['h'], i['m'], i['s'], i['text'][10]),
             'year': lambda: dates.year_obs(p, i['y'], i['m'], i['d']), 'pair': lambda: dates.pair_obs(p, D(i['a']), D(i['b'])),
             'edate': lambda: dates.edate_obs(p, D(i['a']), i['k']), 'wtype': lambda: dates.wtype_obs(p, i['n'], i['type'])}[k]()
        if 'calendar' in i:
            o['in']['calendar'] = 1
        o['id'] = 1
        v = core.validate_obs(run, 'Trace_Date', [o], 'replay')
        core.tally(run, [o], v, 'c14')
        return run.finish()
    r = core.run_tlc('MC_Date.tla', 'MC_Date_quick.cfg' if quick else 'MC_Date_thorough.cfg', timeout=3000)
    run.add_tlc('MC_Date', r)
    rng = random.Random(run.seed)
    ns = [n for n in (dates.quick_days() if quick else range(61, dates.LAST + 1, 3)) if n >= 61]
    size = 2500 if quick else 20000
    CH = 100000
    count = [0]
    keep = []

    def judge(part, label):
        # one segment at a time (the observations of the thorough sweep together took 8 GB)
        for o in part:
            count[0] += 1
            o['id'] = count[0]
        v = core.validate_obs(run, 'Trace_Date', part, label)
        core.tally(run, part, v, 'c14', key=lambda o: o['kind'] + json.dumps(o['in'], sort_keys=True))
        if len(keep) < 1:
            keep.append(part[min(100, len(part) - 1)])

    for k in range(0, len(ns), CH):
        seg = ns[k:k + CH]
        judge(dates.run_parallel(_days_chunk, [seg[i:i + size] for i in range(0, len(seg), size)]), 'd%d' % (k // CH))
    obs = []
    run.extra['days_swept'] = len(ns)
    # January and February 1900: the calendar functions (not the serial scale, which C13 owns) on every day
    for n in range(2, 61):
        o = dates.day_obs(p, n)
        o['in']['calendar'] = 1
        obs.append(o)
    for h, m, s in itertools.product((0, 1, 11, 12, 13, 23), (0, 1, 30, 59), (0, 1, 59)):
        obs.append(dates.time_obs(p, h, m, s))
    for _ in range(300 if quick else 5000):
        obs.append(dates.time_obs(p, rng.randint(0, 23), rng.randint(0, 59), rng.randint(0, 59)))
    for _ in range(1500 if quick else 40000):
        y, mo = rng.choice([1900, 1999, 2000, 2024, rng.randint(1900, 9999)]), rng.randint(1, 12)
        d = rng.randint(1, 28) if rng.random() < 0.8 else [31, 28, 31, 30, 31, 30, 31, 31, 30, 31, 30, 31][mo - 1]
        if (y, mo) < (1900, 3):
            mo = 3
        obs.append(dates.iso_obs(p, y, mo, d, rng.randint(0, 23), rng.randint(0, 59), rng.randint(0, 59), rng.choice('T ')))
    for y in list(range(0, 1900, 7 if quick else 1)) + [0, 1, 99, 100, 1899]:
        obs.append(dates.year_obs(p, y, rng.randint(3, 12), rng.randint(1, 28)))
    for y in (0, 4, 96, 100, 104, 496, 500, 900, 1300, 1700, 1896, 1899, 1):
        for m, d in ((2, 29), (2, 28), (12, 31), (1, 31)):
            try:
                datetime.datetime(1900 + y, m, d)
            except ValueError:
                continue
            obs.append(dates.year_obs(p, y, m, d))
    bd = boundary_dates()
    pairs = list(itertools.product(bd, bd))
    if quick:
        pairs = rng.sample(pairs, 4000)
    for a, b in pairs:
        obs.append(dates.pair_obs(p, a, b))
    for _ in range(2000 if quick else 60000):
        a = dates.EPOCH + datetime.timedelta(days=rng.randint(61, dates.LAST))
        b = rng.choice([a + datetime.timedelta(days=rng.randint(0, 800)) if a.year < 9990 else a,
                        dates.EPOCH + datetime.timedelta(days=rng.randint(61, dates.LAST))])
        obs.append(dates.pair_obs(p, a, b))
    offsets = [-120000, -119999, -25, -13, -12, -11, -2, -1, 0, 1, 2, 11, 12, 13, 24, 25, 1200, 97199, 97200, 119999, 120000]
    for a in (bd if not quick else rng.sample(bd, 40)):
        for k in offsets:
            obs.append(dates.edate_obs(p, a, k))
    for _ in range(2000 if quick else 60000):
        a = dates.EPOCH + datetime.timedelta(days=rng.randint(61, dates.LAST))
        obs.append(dates.edate_obs(p, a, rng.choice([rng.randint(-48, 48), rng.randint(-120000, 120000)])))
    for t in (0, 4, 5, 10, 11, 12, 13, 14, 15, 16, 17, 18, 21, -1, 100):
        for n in (61, 43831, dates.LAST):
            obs.append(dates.wtype_obs(p, n, t))
    for k in range(0, len(obs), CH):
        judge(obs[k:k + CH], 'p%d' % (k // CH))
    run.exhaustive = True
    run.samples = keep + [obs[-30], obs[-1]]
    return run.finish()
