# -*- coding: utf-8 -*-
"""The LR automaton the library actually runs (ply's action/goto tables of the live parser
object), written out as a TLA+ module so that TLC can run it (spec/XLLR.tla).  The tables are
data of the implementation: whatever ply generated (or loaded) for the grammar and precedence
declarations of the tree under test.  Semantic actions are *not* taken from the code: XLLR maps
a production to a tree constructor by the shape of its right-hand side."""
import gc


class NoTables(Exception):
    pass


def find_lr(lib):
    """The ply LRParser of a fresh hotxlfp.Parser, wherever the object keeps it."""
    import ply.yacc as yacc
    p = lib.Parser()
    p.parse('1+1')          # tables may be built on first use
    seen = set()
    stack = [p]
    depth = {id(p): 0}
    while stack:
        o = stack.pop()
        if id(o) in seen:
            continue
        seen.add(id(o))
        if isinstance(o, yacc.LRParser):
            return p, o
        d = depth[id(o)]
        if d >= 4:
            continue
        try:
            attrs = list(vars(o).values())
        except TypeError:
            attrs = []
        for a in attrs:
            if id(a) not in seen and not isinstance(a, (str, bytes, int, float, bool, type(None))):
                depth[id(a)] = d + 1
                stack.append(a)
    # last resort: any LRParser alive after constructing a parser
    for o in gc.get_objects():
        if isinstance(o, yacc.LRParser):
            return p, o
    raise NoTables('no ply LRParser reachable from hotxlfp.Parser()')


BINTOK = {'PLUS': '+', 'MINUS': '-', 'MULT': '*', 'DIV': '/', 'AMP': '&', 'EQUAL': '=', 'NOTEQUAL': '<>',
          'LESS': '<', 'GREATER': '>', 'LESSEQ': '<=', 'GREATEREQ': '>='}
SEPS = {'COMMA', 'SEMICOLON', 'BACKSLASH'}


def kind_of(name, rhs):
    """Tree constructor of a production, by the shape of its right-hand side."""
    n = len(rhs)
    if name == "S'":
        return 'pass'
    if name == 'expressions' and n == 1:
        return 'pass'
    if name == 'expression':
        if n == 3 and rhs[0] == 'expression' and rhs[2] == 'expression' and rhs[1] in BINTOK:
            return 'bin'
        if n == 2 and rhs[0] == 'MINUS' and rhs[1] == 'expression':
            return 'neg'
        if n == 3 and rhs[0] == 'LPAREN' and rhs[2] == 'RPAREN' and rhs[1] == 'expression':
            return 'paren'
        if rhs == ['NUMBER']:
            return 'leaf_n'
        if rhs == ['NUMBER', 'DECIMAL', 'NUMBER']:
            return 'leaf_d'
        if rhs == ['DECIMAL', 'NUMBER']:
            return 'leaf_f'
        if rhs == ['NUMBER', 'PERCENT']:
            return 'leaf_p'
        if rhs == ['NUMBER', 'CARET', 'NUMBER']:
            return 'leaf_c'
        if rhs == ['STRING']:
            return 'leaf_s'
        if rhs == ['XLERROR']:
            return 'leaf_e'
        if n == 3 and rhs[0] == 'FUNCTION' and rhs[1] == 'LPAREN' and rhs[2] == 'RPAREN':
            return 'call0'
        if n == 4 and rhs[0] == 'FUNCTION' and rhs[1] == 'LPAREN' and rhs[3] == 'RPAREN':
            return 'call'
        if n == 1 and rhs[0] in ('variable_sequence',):
            return 'leaf_v'
        if n == 1 and rhs[0] in ('cell',):
            return 'pass'
        if n == 1 and rhs[0] == 'array':
            return 'pass'
    if name == 'array' and n == 3 and rhs[0] == 'LBRACKET' and rhs[2] == 'RBRACKET':
        return 'arr'
    if name.startswith('expseq'):
        if rhs == ['expression']:
            return 'seq1'
        if n == 3 and rhs[0] == name and rhs[1] in SEPS and rhs[2] == 'expression':
            return 'seqapp'
        return 'seqother'
    if name == 'variable_sequence' and rhs == ['VARIABLE']:
        return 'tokpass'
    if name == 'cell' and n == 1:
        return 'leaf_r'
    if name == 'cell' and n == 3 and rhs[1] == 'COLON':
        return 'leaf_g'
    return 'other'


def tla_str(s):
    return '"' + s.replace('\\', '\\\\').replace('"', '\\"') + '"'


def fn(pairs):
    """TLA+ function literal from (key-text, value-text) pairs; never empty."""
    pairs = list(pairs) or [('"_"', '0')]
    return '(' + ' @@ '.join('%s :> %s' % kv for kv in pairs) + ')'


def extract(lib):
    p, lr = find_lr(lib)
    prods = []
    for pr in lr.productions:
        s = getattr(pr, 'str', None) or str(pr)
        name, _, rhs = s.partition('->')
        rhs = rhs.split()
        if rhs == ['<empty>']:
            rhs = []
        prods.append({'name': name.strip(), 'len': pr.len, 'rhs': rhs, 'kind': kind_of(name.strip(), rhs)})
    action = {int(s): {str(t): int(a) for t, a in row.items()} for s, row in lr.action.items()}
    goto = {int(s): {str(t): int(a) for t, a in row.items()} for s, row in lr.goto.items()}
    dflt = {int(s): int(a) for s, a in (getattr(lr, 'defaulted_states', None) or {}).items()}
    return {'productions': prods, 'action': action, 'goto': goto, 'defaulted': dflt}


def module(tabs, name='LRTabGen'):
    states = sorted(set(tabs['action']) | set(tabs['goto']))
    out = ['---- MODULE %s ----' % name, 'EXTENDS TLC, Integers', '',
           '(* generated from the live ply tables of the tree under test; do not edit *)',
           'LRStates == {%s}' % ', '.join(str(s) for s in states)]
    rows = []
    for s in states:
        row = tabs['action'].get(s, {})
        rows.append((str(s), fn((tla_str(t), str(a)) for t, a in sorted(row.items()))))
    out.append('LRAct == ' + fn(rows))
    rows = []
    for s in states:
        row = tabs['goto'].get(s, {})
        rows.append((str(s), fn((tla_str(t), str(a)) for t, a in sorted(row.items()))))
    out.append('LRGoto == ' + fn(rows))
    out.append('LRDefStates == {%s}' % ', '.join(str(s) for s in sorted(tabs['defaulted'])))
    out.append('LRDef == ' + fn([(str(s), str(a)) for s, a in sorted(tabs['defaulted'].items())] or [('0', '0')]))
    ps = tabs['productions']
    out.append('LRPName == <<%s>>' % ', '.join(tla_str(p['name']) for p in ps))
    out.append('LRPLen == <<%s>>' % ', '.join(str(p['len']) for p in ps))
    out.append('LRPKind == <<%s>>' % ', '.join(tla_str(p['kind']) for p in ps))
    out.append('====')
    return '\n'.join(out) + '\n'
