# -*- coding: utf-8 -*-
"""Function-call cases [f, args (values)] -> observations for Trace_Eval: the call is written with
its arguments bound as variables (arrays as host lists) and, when every argument is expressible, as
literals too."""
import random

from . import formula as F
from .values import dec, lit_number

NAMES = ['a' + chr(97 + i) for i in range(26)] + ['b' + chr(97 + i) for i in range(26)]   # not cell-shaped


def literal_node(v):
    t = v['t']
    if t == 'num':
        s = lit_number({'t': 'num', 'n': abs(v['n']), 'd': v['d']})
        if s is None:
            return None
        return F.neg(F.num(s)) if v['n'] < 0 else F.num(s)
    if t == 'txt':
        s = F.S(v['s'])
        return F.string(s) if '"' not in s and '\\' not in s else None
    if t == 'bool':
        return F.var('TRUE' if v['b'] else 'FALSE')
    if t == 'blank':
        return dict(F.OMIT)
    if t == 'arr':
        items = [literal_node(x) for x in v['a']]
        if any(i is None or i['k'] == 'omit' for i in items) or not items:
            return None
        return F.arr(*items)
    return None


RANGES = [('A1', 'C3'), ('E1', 'G3'), ('I1', 'K3')]


def twin_value(v):
    """the value Python confuses with v (1 == True == 1.0 and they hash alike): a cache keyed on arguments must not"""
    t = v['t']
    if t == 'num' and v['d'] == 1 and v['n'] in (0, 1) and not v.get('f'):
        return {'t': 'bool', 'b': v['n'] == 1}
    if t == 'bool':
        return {'t': 'num', 'n': 1 if v['b'] else 0, 'd': 1}
    if t == 'num' and v['d'] == 1 and abs(v['n']) < 10 ** 6:
        return dict(v, f=not v.get('f'))          # the same whole number as a float / as an int
    if t == 'arr':
        tw = [twin_value(x) for x in v['a']]
        return {'t': 'arr', 'a': [x if x is not None else y for x, y in zip(tw, v['a'])]} if any(x is not None for x in tw) else None
    return None


def with_twins(cases, every=4):
    """cases plus, next to every few of them, the same call on values that compare and hash equal in Python"""
    out = []
    for n, c in enumerate(cases):
        if n % every == 0:
            tw = [twin_value(a) for a in c['args']]
            if any(x is not None for x in tw):
                if n % (3 * every) == 0:
                    # only one argument changes its type: 2.0 looked up among 1, 2, 3 - or 2 among 1.0, 2.0, 3.0
                    keep = [i for i, x in enumerate(tw) if x is not None][(n // every) % sum(1 for x in tw if x is not None)]
                    tw = [x if i == keep else None for i, x in enumerate(tw)]
                twin = dict(c, args=[x if x is not None else a for x, a in zip(tw, c['args'])])
                out.append([twin, c] if n % (2 * every) == 0 else [c, twin])
                continue
        out.append([c])
    return out


class HostText(str):
    """text as a host may hold it: an instance of a subclass of str"""


class HostInt(int):
    pass


class HostFloat(float):
    pass


def exotic(v, tuples=False):
    """the same value as an instance of a subclass (and, for arrays, as a tuple): it is still that text / number / array"""
    if isinstance(v, bool) or v is None:
        return v
    if isinstance(v, str):
        return HostText(v)
    if isinstance(v, int):
        return HostInt(v)
    if isinstance(v, float):
        return HostFloat(v)
    if isinstance(v, list):
        w = [exotic(x, tuples) for x in v]
        return tuple(w) if tuples else w
    return v


def observe(lib, cases, literal=True, checks=('value',), extra_env=None, ranges=False, twins=False, subclasses=False, force_wrap=False):
    obs = []
    h = None
    # evaluated in a seeded random order: an answer must not depend on which call of its kind came first in the process
    groups = with_twins(cases) if twins else [[c] for c in cases]
    random.Random(20260927 + len(cases)).shuffle(groups)
    for c in (c for g in groups for c in g):
        f, args = c['f'], c['args']
        env = F.empty_env()
        if extra_env:
            env.update(extra_env)
        env['vars'] = {NAMES[i]: a for i, a in enumerate(args)}
        ast = F.call(f, *[F.var(NAMES[i]) for i in range(len(args))])
        forms = [(ast, env)]
        if literal:
            lits = [literal_node(a) for a in args]
            consecutive = any(lits[i] is not None and lits[i + 1] is not None and lits[i]['k'] == 'omit' and
                              lits[i + 1]['k'] == 'omit' for i in range(len(lits) - 1))
            # (two empty slots in a row are not accepted by the grammar: C05 is conditional on acceptance)
            if lits and all(x is not None for x in lits) and lits[-1]['k'] != 'omit' and not consecutive \
                    and lits[0]['k'] != 'omit':
                forms.append((F.call(f, *lits), dict(F.empty_env(), **(extra_env or {}))))
        if ranges and any(a['t'] == 'arr' for a in args):
            # arrays supplied by the host through the range listener
            e2 = F.empty_env()
            if extra_env:
                e2.update(extra_env)
            nodes, k = [], 0
            for i, a in enumerate(args):
                if a['t'] == 'arr' and k < len(RANGES):
                    lo, hi = RANGES[k]
                    k += 1
                    e2['rangesets'].append({'key': F.cps(lo + ':' + hi), 'vals': [a]})
                    nodes.append(F.rng(lo, hi))
                else:
                    e2['vars'][NAMES[i]] = a
                    nodes.append(F.var(NAMES[i]))
            forms.append((F.call(f, *nodes), e2))
        for a, e in forms:
            wrap = None
            if subclasses and a is ast and (len(obs) % 5 == 1 or force_wrap):
                wrap = (lambda v: exotic(v, tuples=f in ('AND', 'OR', 'XOR'))) if True else None
            h = F.Harnessed(lib, e, wrap=wrap)
            text = F.render(a)
            o = h.parse(text, again=len(obs) % 3 == 2)
            o.update({'id': len(obs) + 1, 'ast': a, 'env': e, 'formula': text, 'checks': list(checks),
                      'in': {'f': f, 'args': args, 'formula': text}})
            if wrap:
                o['in']['exotic'] = True
            obs.append(o)
    return obs


def _mutate(x):
    """change a host list in place (same object, same shape, other contents)"""
    for i, v in enumerate(x):
        if isinstance(v, list):
            _mutate(v)
        elif isinstance(v, bool) or v is None:
            pass
        elif isinstance(v, (int, float)):
            x[i] = v + 1000
        elif isinstance(v, str):
            x[i] = v + '~'


def observe_after_mutation(lib, cases, checks=('value',)):
    """each call is evaluated, then the host changes its own list arguments in place (same objects) and the call is
    evaluated again on the same parser: the second answer is judged against the new contents"""
    from .values import enc
    obs = []
    for c in cases:
        f, args = c['f'], c['args']
        if not any(a['t'] == 'arr' for a in args):
            continue
        env = F.empty_env()
        env['vars'] = {NAMES[i]: a for i, a in enumerate(args)}
        ast = F.call(f, *[F.var(NAMES[i]) for i in range(len(args))])
        h = F.Harnessed(lib, env)
        text = F.render(ast)
        h.parse(text)
        env2 = F.empty_env()
        env2['vars'] = dict(env['vars'])
        for i, a in enumerate(args):
            if a['t'] == 'arr':
                obj = h.p.get_variable(NAMES[i])
                _mutate(obj)
                env2['vars'][NAMES[i]] = enc(obj)
        o = h.parse(text)
        o.update({'id': len(obs) + 1, 'ast': ast, 'env': env2, 'formula': text, 'checks': list(checks),
                  'in': {'f': f, 'args': args, 'formula': text, 'after_mutation': True}})
        obs.append(o)
    return obs


def observe_after_probes(lib, cases, probes, checks=('value',)):
    """other calls look at the same host arrays first (same parser, same objects); the host has not touched them, so the
    call is judged against the contents it registered"""
    obs = []
    for c in cases:
        f, args = c['f'], c['args']
        if not any(a['t'] == 'arr' for a in args):
            continue
        env = F.empty_env()
        env['vars'] = {NAMES[i]: a for i, a in enumerate(args)}
        ast = F.call(f, *[F.var(NAMES[i]) for i in range(len(args))])
        h = F.Harnessed(lib, env)
        for i, a in enumerate(args):
            if a['t'] == 'arr':
                for p in probes:
                    h.parse(p.replace('%s', NAMES[i]))
        text = F.render(ast)
        o = h.parse(text)
        o.update({'id': len(obs) + 1, 'ast': ast, 'env': env, 'formula': text, 'checks': list(checks),
                  'in': {'f': f, 'args': args, 'formula': text, 'after_probes': list(probes)}})
        obs.append(o)
    return obs
