# -*- coding: utf-8 -*-
"""C13 - date serial numbers: invertible, monotone, Excel 1900 system.  MC_Date: calendar round trip
and successor law on XLDate for every day number in the bound.  Conformance: for every day swept
(quick: boundary years + every 97th day; thorough: every day 1900-01-01..9999-12-31) one array
formula exercises DATEVALUE / N / DAYS / subtraction / comparison / YEAR-MONTH-DAY of the serial /
date +- n; random millisecond date-times for the round trip and strict monotonicity.  Trace_Date."""
import datetime
import json
import os
import random

from . import core, dates


def _days_chunk(ns):
    lib = core.load_library()
    p = lib.Parser()
    return [dates.day_obs(p, n) for n in ns]


def main(tier, replay=None):
    run = core.Run('C13', tier, keep_replays=bool(replay))
    lib = core.load_library()
    run.rule = ('one observation per calendar day (array formula over that day) or per date-time instant; distinct by input; '
                'non-trivial = all')
    run.assumptions = ['the driver turns day numbers into datetime objects with Python\'s calendar; Trace_Date re-derives the civil '
                       'date from the day number and rejects the observation as a driver error if they disagree',
                       'the fraction of a serial is compared exactly only for times that are dyadic fractions of a day '
                       '(multiples of 84375 ms); other instants are covered by the round trip, strict monotonicity at 1 ms and the '
                       'whole part of the serial', 'before 1 March 1900 only monotonicity and the round trip are required']
    quick = tier == 'quick'
    p = lib.Parser()
    if replay:
        c = json.load(open(replay))['case']
        i = c['in']
        o = dates.day_obs(p, i['n']) if c['kind'] == 'day' else dates.instant_obs(p, i['y'], i['mo'], i['d'], i['ms'])
        o['id'] = 1
        v = core.validate_obs(run, 'Trace_Date', [o], 'replay')
        core.tally(run, [o], v, 'c13')
        return run.finish()
    r = core.run_tlc('MC_Date.tla', 'MC_Date_quick.cfg' if quick else 'MC_Date_thorough.cfg', timeout=3000)
    run.add_tlc('MC_Date', r)
    rng = random.Random(run.seed)
    ns = dates.quick_days() if quick else list(range(2, dates.LAST + 1))
    size = 2500 if quick else 20000
    CH = 100000
    count = [0]
    keep = []

    def judge(part, label):
        # one segment at a time: the observations of the whole sweep together took over 20 GB
        for o in part:
            count[0] += 1
            o['id'] = count[0]
        v = core.validate_obs(run, 'Trace_Date', part, label)
        core.tally(run, part, v, 'c13', key=lambda o: o['kind'] + json.dumps(o['in'], sort_keys=True))
        if len(keep) < 2:
            keep.append(part[min(100, len(part) - 1)])

    for k in range(0, len(ns), CH):
        seg = ns[k:k + CH]
        judge(dates.run_parallel(_days_chunk, [seg[i:i + size] for i in range(0, len(seg), size)]), 'd%d' % (k // CH))
    run.extra['days_swept'] = len(ns)
    part = []
    for _ in range(12000 if quick else 400000):
        y = rng.choice([1900, 1900, 1901, rng.randint(1900, 2100), rng.randint(1900, 9999)])
        mo, d = rng.randint(1, 12), rng.randint(1, 28)
        ms = rng.choice([0, 1, 86399999, 43200000, 84375 * rng.randint(0, 1023), rng.randint(0, 86399999), rng.randint(0, 86399999),
                         1000 * rng.randint(0, 86399), 1000 * rng.randint(0, 86399), rng.randint(1, 999)])   # whole seconds, first second of a day
        if (y, mo, d, ms) == (9999, 12, 28, 86399999):
            continue
        part.append(dates.instant_obs(p, y, mo, d, ms))
        if len(part) >= CH:
            judge(part, 'i%d' % count[0])
            part = []
    if part:
        judge(part, 'i%d' % count[0])
        keep.append(part[-1])
    run.exhaustive = not quick
    run.samples = keep[:3]
    return run.finish()
