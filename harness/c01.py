# -*- coding: utf-8 -*-
"""C01 - Parser.parse is total and returns a well-formed record.
MC: XLTotal (the wrapper around an evaluation: every kind of value or exception it may end with) is
total with both guards of the design and refuted without either.  Conformance: fault schedules
(every assignment of returning/raising behaviours to the callback points of template formulas),
token soups, every documented function x arity 0..4 x a 12-value pool, random Unicode and
truncated formulas - every call recorded with a step/time budget and judged by TLC (Trace_C01:
returned, well-formed, and equal to XLEval where the case is inside the specified language)."""
import datetime
import contextlib
import io
import itertools
import json
import os
import random
import signal
import sys

from . import core
from . import formula as F
from .values import enc, outcome

N = F.num


class Budget(BaseException):
    pass


def _alarm(signum, frame):
    raise Budget()


def guarded_parse(p, text, seconds=0.5):
    """returns (record or None, raised, timed_out)"""
    signal.signal(signal.SIGALRM, _alarm)
    signal.setitimer(signal.ITIMER_REAL, seconds)
    try:
        rec = p.parse(text)
        signal.setitimer(signal.ITIMER_REAL, 0)
        return rec, False, False
    except Budget:
        return None, False, True
    except BaseException as e:     # anything escaping parse
        signal.setitimer(signal.ITIMER_REAL, 0)
        return None, True, False
    finally:
        signal.setitimer(signal.ITIMER_REAL, 0)


def confirm_timeout(make_parser, text, lines=300000):
    """deterministic re-run under a line-event budget (sys.settrace)"""
    n = [0]

    def tr(frame, event, arg):
        if event == 'line':
            n[0] += 1
            if n[0] > lines:
                raise Budget()
        return tr
    p = make_parser()
    sys.settrace(tr)
    try:
        p.parse(text)
        return False
    except Budget:
        return True
    except BaseException:
        return False
    finally:
        sys.settrace(None)


def traced_parse(p, text, lines=300000):
    """the evaluation under a budget of executed lines instead of seconds (deterministic: a busy machine or a long pause of
    the garbage collector is not a formula that does not return); returns (record or None, raised, budget exceeded)"""
    n = [0]

    def tr(frame, event, arg):
        if event == 'line':
            n[0] += 1
            if n[0] > lines:
                raise Budget()
        return tr
    sys.settrace(tr)
    try:
        rec = p.parse(text)
        return rec, False, False
    except Budget:
        return None, False, True
    except BaseException:
        return None, True, False
    finally:
        sys.settrace(None)


def isolated_batch(texts, per_input=8.0):
    """parse texts in a child process; returns [(record-outcome or None, raised, timed_out)]"""
    import select
    import subprocess
    tf = os.path.join(core.scratch(), 'c01_texts_%d.json' % len(os.listdir(core.scratch())))
    json.dump(texts, open(tf, 'w'))
    res = [None] * len(texts)
    start = 0
    while start < len(texts):
        ch = subprocess.Popen(['/venv/bin/python', '-u', os.path.join(core.VERIF, 'harness', 'c01_child.py'),
                               core.lib_path(), tf, core.VERIF, str(start)], stdout=subprocess.PIPE, stderr=subprocess.DEVNULL)
        fd = ch.stdout.fileno()
        buf = b''
        cur = None
        try:
            while True:
                # lines are taken from our own buffer first: waiting on the pipe while complete lines are already here would
                # blame an input that had long returned
                if b'\n' not in buf:
                    r, _, _ = select.select([fd], [], [], per_input if cur is not None else 30.0)
                    if not r:
                        if cur is None:
                            raise core.MachineryError('C01 child process did not start')
                        res[cur] = (None, False, True)       # this input did not come back
                        start = cur + 1
                        break
                    chunk = os.read(fd, 1 << 16)
                    if not chunk:
                        if cur is not None and res[cur] is None:
                            res[cur] = (None, True, False)   # the child died on this input
                            start = cur + 1
                        else:
                            start = len(texts)
                        break
                    buf += chunk
                    continue
                ln, _, buf = buf.partition(b'\n')
                ln = ln.decode('utf-8', 'replace')
                if ln.startswith('BEGIN '):
                    cur = int(ln.split()[1])
                elif ln.startswith('END '):
                    d = json.loads(ln[4:])
                    res[d['i']] = (d['out'], d['raised'], False)
                    start = d['i'] + 1
        finally:
            ch.kill()
            ch.wait()
    return res


def observation(kind, text, rec, raised, timed_out, spec=False, ast=None, env=None, extra=None):
    o = {'kind': kind, 'formula': text, 'raised': raised, 'timed_out': timed_out, 'spec': spec,
         'out': outcome(rec) if rec is not None else {'keys': [], 'res': {'t': 'blank'}, 'err': '', 'errkind': 'none'},
         'ast': ast or {'k': 'omit'}, 'env': env or F.empty_env(), 'in': {'kind': kind, 'formula': text}}
    if extra:
        o['in'].update(extra)
    return o


# ------------------------------------------------------------------ fault schedules

class BadStr(Exception):
    def __str__(self):
        raise RuntimeError('no text for you')


class Opaque2(object):
    pass


def behaviours(lib):
    from hotxlfp.formulas import error
    E = error
    ret = [5, -2.5, '12', 'abc', '', True, None, datetime.datetime(2020, 2, 29, 6), [1, 2], [[1, [2]], 3],
           E.NOT_AVAILABLE, E.DIV_ZERO, [1, E.VALUE], 0]
    odd = [Opaque2(), float('nan'), float('inf'), 10 ** 400, E.XLError('#SPILL!'), b'bytes', {'a': 1}, (1, 2), 1 + 2j]
    exc = [E.ERROR, E.DIV_ZERO, E.NAME, E.NOT_AVAILABLE, E.NULL, E.NUM, E.REF, E.VALUE, E.DATA, E.XLError('#SPILL!'),
           Exception('#N/A'), Exception('boom'), Exception(''), SyntaxError('x'), KeyError('k'), ZeroDivisionError(),
           StopIteration(), RecursionError('deep'), BadStr(), UnicodeDecodeError('utf8', b'x', 0, 1, 'r'), MemoryError()]
    out = []
    for v in ret:
        out.append({'act': 'ret', 'v': v, 'std': True})
    for v in odd:
        out.append({'act': 'ret', 'v': v, 'std': False})
    for x in exc:
        out.append({'act': 'raise', 'x': x, 'std': isinstance(x, E.XLError) and str(x) in
                    ('#ERROR!', '#DIV/0!', '#NAME?', '#N/A', '#NULL!', '#NUM!', '#REF!', '#VALUE!', '#GETTING_DATA')})
    return out


TEMPLATES = [
    (F.call('CF', N('1')), ['cf']),
    (F.binop('+', F.var('va'), F.call('CF', N('2'))), ['var', 'cf']),
    (F.call('SUM', F.cell('A1'), F.call('CF', F.var('va'))), ['cell', 'var', 'cf']),
    (F.call('IF', F.call('CF', N('1')), F.rng('B1', 'C2'), F.var('va')), ['cf', 'range', 'var']),
    (F.binop('&', F.call('CF', F.call('CF', N('1'))), F.cell('A1')), ['cf', 'cell']),
    (F.binop('=', F.arr(F.var('va'), F.call('CF', N('1'))), F.call('ABS', F.cell('A1'))), ['var', 'cf', 'fn']),
    (F.call('IFERROR', F.neg(F.paren(F.call('CF'))), F.var('va')), ['cf', 'var']),
]


def run_schedule(lib, B, t, bs, debug=False, seconds=0.5):
    ast, points = TEMPLATES[t]
    bmap = {}
    for kind, b in zip(points, bs):
        bmap.setdefault(kind, B[b])
    env = F.empty_env()
    env['vars'] = {'va': enc(3)}
    spec = True
    p = lib.Parser(debug=debug)
    p.set_variable('va', 3)

    def act(b, setter=None):
        if b['act'] == 'raise':
            # (the same exception object is raised in thousands of schedules: without this its traceback grows by eight frames
            # per raise - the host's doing - and printing it in debug mode eventually exceeds every budget)
            raise b['x'].with_traceback(None)
        if setter is not None:
            setter(b['v'])
        return b['v']

    for kind, b in bmap.items():
        spec = spec and b['std']
        if kind == 'cf':
            p.set_function('CF', lambda *a, _b=b: act(_b))
            if b['act'] == 'ret':
                env['funcs']['CF'] = {'mode': 'const', 'v': enc(b['v']), 'i': 0}
            elif b['std']:
                env['funcs']['CF'] = {'mode': 'raise', 'v': {'t': 'err', 'c': str(b['x'])}, 'i': 0}
            else:
                env['funcs']['CF'] = {'mode': 'exc', 'v': {'t': 'blank'}, 'i': 0}
        else:
            evname = {'var': 'callVariable', 'cell': 'callCellValue', 'range': 'callRangeValue', 'fn': 'callFunction'}[kind]
            p.on(evname, lambda *a, _b=b: act(_b, a[-1]))
            if b['act'] == 'ret':
                key = {'var': 'va', 'cell': F.cps('A1'), 'range': F.cps('B1:C2'), 'fn': 'ABS'}[kind]
                env[{'var': 'varsets', 'cell': 'cellsets', 'range': 'rangesets', 'fn': 'fnsets'}[kind]].append(
                    {'key': key, 'vals': [enc(b['v'])]})
            else:
                env.setdefault('raises', []).append({'var': 'var:va', 'cell': 'cell:*', 'range': 'range:*', 'fn': 'fn:ABS'}[kind])
                if kind == 'fn' and 'CF' in [k for k in bmap]:
                    pass
    if 'cf' not in bmap:
        env['funcs'] = {}
    # the fn listener also fires for CF and SUM/IF/IFERROR calls: only keep spec for templates where that is ABS alone
    if 'fn' in bmap:
        spec = False
    text = F.render(ast)
    if seconds is None:
        rec, raised, timed = traced_parse(p, text)
    else:
        rec, raised, timed = guarded_parse(p, text, seconds)
    if timed and seconds is not None and seconds < 5:
        # a stalled process is not a formula that does not return: once more, from scratch, with ten times the budget
        return run_schedule(lib, B, t, bs, debug, seconds=5.0)
    if timed and seconds is not None:
        # and if that was not enough either, once more under a budget of executed lines, which no load can exhaust
        return run_schedule(lib, B, t, bs, debug, seconds=None)
    return observation('fault', text, rec, raised, timed, spec=spec, ast=ast, env=env,
                       extra={'template': t, 'behaviours': [describe(B[b]) for b in bs[:len(points)]], 'debug': debug})


def describe(b):
    return ('return ' + repr(b['v'])[:40]) if b['act'] == 'ret' else ('raise ' + type(b['x']).__name__ + '(' + repr(b['x'].args)[:30] + ')')


# ------------------------------------------------------------------ token soups, sweeps, random text

LEX = ['1', '23', '.5', '1.5', '7%', '2^3', '"a"', "'b'", '"', "'", 'A1', '$B$2', 'a$1', 'A1:B2', 'va', 'nosuch',
       'SUM(', 'NOSUCH(', '(', ')', '{', '}', ',', ';', '\\', '+', '-', '*', '/', '&', '=', '<', '<>', '>=', '#REF!',
       '#N/A', '#', '!', '%', '^', ':', '.', ' ', '~', 'TRUE', '$', '_', 'é', '\n']


PV = ['pa', 'pb', 'pc', 'pd', 'pe', 'pf', 'pg', 'ph', 'pi_', 'pj', 'pk', 'pl', 'pm', 'pn']   # not cell-shaped


def mk_parser(lib):
    p = lib.Parser()
    p.set_variable('va', 3)
    p.on('callCellValue', lambda c, done: done(5))
    p.on('callRangeValue', lambda a, b, done: done([[1, 2], [3, 4]]))
    return p


def pool_values(lib):
    from hotxlfp.formulas import error
    return [7, -2.5, '12', 'abc', '', True, None, datetime.datetime(2021, 3, 4, 5, 6, 7), [3, 1, 2], [[1, 2], [3, [4]]],
            error.NOT_AVAILABLE, 0, 2.5, '3.5']


def main(tier, replay=None):
    run = core.Run('C01', tier, keep_replays=bool(replay))
    lib = core.load_library()
    names, bconst = core.builtins_constant()
    consts = {'Builtins': bconst}
    run.rule = ('one observation = one call of Parser.parse under a time budget; kinds: fault schedule (template formula, '
                'behaviour per callback point), token soup, function x arity x value pool, random/truncated text; distinct by '
                '(kind, formula, behaviours); non-trivial = all')
    run.assumptions = ['callbacks raise Exception subclasses only (KeyboardInterrupt-like BaseExceptions are outside the '
                       'statement by Python convention)',
                       'bounded time = 0.5 s wall clock per call, confirmed by a deterministic re-run under a 300000 '
                       'line-event budget before it is reported',
                       'the outcome is compared with XLEval only when every callback behaviour is inside the specified '
                       'language; otherwise only totality and well-formedness are required']
    quick = tier == 'quick'
    rng = random.Random(run.seed)
    B = behaviours(lib)
    from hotxlfp.formulas import error as _err
    error_value = _err.VALUE
    if replay:
        c = json.load(open(replay))['case']
        i = c['in']
        if i['kind'] == 'fault':
            idx = {describe(b): n for n, b in enumerate(B)}
            o = run_schedule(lib, B, i['template'], [idx[d] for d in i['behaviours']] + [0, 0, 0], i.get('debug', False))
        else:
            p = mk_parser(lib)
            for n, v in enumerate(pool_values(lib)):
                p.set_variable(PV[n], v)
            rec, raised, timed = guarded_parse(p, i['formula'])
            o = observation(i['kind'], i['formula'], rec, raised, timed)
        o['id'] = 1
        v = core.validate_obs(run, 'Trace_C01', [o], 'replay', consts)
        core.tally(run, [o], v, 'c01')
        return run.finish()
    # --- MC: the wrapper design
    for cfg, want in (('XLTotal_ref.cfg', True), ('XLTotal_nocanon.cfg', False), ('XLTotal_nostr.cfg', False)):
        r = core.run_tlc('XLTotal.tla', cfg, workers=2, must_pass=False)
        run.add_tlc('XLTotal[%s]' % cfg, r)
        holds = 'No error has been found' in r.out
        if holds != want:
            raise core.MachineryError('XLTotal %s: expected %s' % (cfg, 'to hold' if want else 'a counterexample'))
    run.extra['wrapper_guards_necessary'] = {'map_result_errors_through_code_table': True, 'guard_str_of_exception': True}
    obs = []
    pool = pool_values(lib)
    CH = 40000
    judged = [0, 0]

    def settle(part):
        """confirm timeouts deterministically, then have TLC judge this part (the thorough tier's millions of observations
        are judged and dropped as they come: all at once they took over 16 GB)"""
        for o in part:
            if o['timed_out']:
                if o['kind'] in ('fault', 'text', 'resubscribe', 'reenter', 'chain'):
                    continue
                def mk():
                    q = mk_parser(lib)
                    for n, v in enumerate(pool):
                        q.set_variable(PV[n], v)
                    return q
                o['timed_out'] = confirm_timeout(mk, o['formula'])
                if not o['timed_out']:
                    rec, raised, timed = guarded_parse(mk(), o['formula'], 5.0)
                    o.update(observation(o['kind'], o['formula'], rec, raised, timed))
        for o in part:
            judged[0] += 1
            o['id'] = judged[0]
        for k in range(0, len(part), CH):
            chunk = part[k:k + CH]
            v = core.validate_obs(run, 'Trace_C01', chunk, 'p%d' % judged[1], consts)
            judged[1] += 1
            core.tally(run, chunk, v, 'c01', key=lambda o: json.dumps(o['in'], sort_keys=True, default=str))

    samples = []
    dropped = [0]

    def total():
        return dropped[0] + len(obs)

    def drain(force=False):
        """judge what has accumulated and forget it"""
        if obs and (force or len(obs) >= CH):
            if len(samples) < 2:
                samples.append(obs[min(3, len(obs) - 1)]['in'])
            settle(list(obs))
            dropped[0] += len(obs)
            del obs[:]

    # --- fault schedules: every assignment for 1- and 2-point prefixes, seeded sample for 3 points in quick
    nb = len(B)
    for t, (ast, points) in enumerate(TEMPLATES):
        k = len(points)
        combos = itertools.product(range(nb), repeat=k)
        if k == 3 and quick:
            combos = [tuple(rng.randrange(nb) for _ in range(3)) for _ in range(2500)]
        elif k == 2 and quick:
            combos = list(combos)
        for bs in combos:
            obs.append(run_schedule(lib, B, t, list(bs) + [0, 0, 0], debug=False))
            drain()
        # the same with debug output switched on (diagnostics are written, and discarded here): still a record, always
        dbg = list(itertools.product(range(nb), repeat=k)) if k == 1 else [tuple(rng.randrange(nb) for _ in range(k)) for _ in range(150 if quick else 3000)]
        with contextlib.redirect_stderr(io.StringIO()), contextlib.redirect_stdout(io.StringIO()):
            for bs in dbg:
                obs.append(run_schedule(lib, B, t, list(bs) + [0, 0, 0], debug=True))
    run.extra['fault_schedules'] = total()
    # --- token soups
    n0 = total()
    p = mk_parser(lib)
    soups = [''.join(c) for k in (1, 2) for c in itertools.product(LEX, repeat=k)]
    if quick:
        soups += [''.join(rng.choice(LEX) for _ in range(3)) for _ in range(12000)]
        soups += [''.join(rng.choice(LEX) for _ in range(rng.randint(4, 9))) for _ in range(3000)]
    else:
        soups += [''.join(c) for c in itertools.product(LEX, repeat=3)]
        soups += [''.join(rng.choice(LEX) for _ in range(rng.randint(4, 12))) for _ in range(100000)]
    soups += ['', ' ', '\t', '\n']
    for i, s in enumerate(soups):
        rec, raised, timed = guarded_parse(p, s)
        if (i % 5 == 0 or s.strip() == '') and isinstance(rec, dict):
            # the host does what it likes with the record it was given; the next evaluation returns a record of its own
            rec['error'] = '(tampered)'
            rec['result'] = error_value
            rec['cell'] = 'A2'
            rec, raised, timed = guarded_parse(p if i % 10 else mk_parser(lib), s)
        obs.append(observation('soup', s, rec, raised, timed))
        drain()
    run.extra['token_soups'] = total() - n0
    # --- listeners that change the subscriptions of the event they are being called for
    n0 = total()
    def resub(variant, text, seconds):
        out = []
        q = lib.Parser()
        q.set_variable('va', 3)
        ev = ('callCellValue', 'callRangeValue', 'callVariable', 'callFunction')

        def grow(*a):
            a[-1](5)
            if variant == 0:
                for e in ev:
                    q.on(e, grow)
            elif variant == 1:
                for e in ev:
                    q.once(e, grow)
            elif variant == 2:
                for e in ev:
                    q.on(e, lambda *b: b[-1](7))
            elif variant == 3:
                for e in ev:
                    q.off(e, grow)
                    q.on(e, grow)
            elif variant == 4:
                for e in ev:
                    q.off(e)
            else:
                for e in ev:
                    q.on(e, grow)
                    q.once(e, grow)
                    q.off(e, grow)
                    q.on(e, grow)
        for e in ev:
            q.on(e, grow)
        for rep in range(3):
            rec, raised, timed = guarded_parse(q, text, seconds)
            out.append(observation('resubscribe', text, rec, raised, timed, extra={'variant': variant, 'rep': rep}))
            if timed:
                break
        return out

    for variant in range(6):
        for text in ('A1+1', 'SUM(A1,B2)*C3', 'A1:B2', 'va+A1', 'SUM(1,2)'):
            got = resub(variant, text, 0.5)
            if any(o['timed_out'] for o in got):
                got = resub(variant, text, 5.0)     # (a stalled process is not a formula that does not return)
            obs += got
    run.extra['listeners_changing_subscriptions'] = total() - n0
    # --- callbacks that evaluate on the parser that is calling them (a cell holding a formula), also failing formulas
    n0 = total()

    def reenter(inner, where, text, seconds):
        q = lib.Parser()
        q.set_variable('va', 3)
        depth = [0]

        def again(*a):
            if depth[0] < 3:
                depth[0] += 1
                try:
                    r = q.parse(inner)
                finally:
                    depth[0] -= 1
                if where != 'fn':
                    a[-1](r.get('result') if isinstance(r, dict) else None)
                return r.get('result') if isinstance(r, dict) else None
        if where == 'fn':
            q.set_function('EVALF', again)
        else:
            q.on({'cell': 'callCellValue', 'range': 'callRangeValue', 'var': 'callVariable', 'call': 'callFunction'}[where], again)
        rec, raised, timed = guarded_parse(q, text, seconds)
        return observation('reenter', text, rec, raised, timed, extra={'inner': inner, 'where': where})

    for inner in ('1+2', 'A2*2', '1+*', 'nosuch+1', '1/0', 'SUM(1,2)&"x"', 'EVALF()+1', 'va'):
        for where, text in (('fn', 'EVALF()+1'), ('fn', 'SUM(EVALF(),EVALF())&"z"'), ('cell', 'A1+1'), ('range', 'SUM(A1:B2)'),
                            ('var', 'va*2'), ('call', 'ABS(-1)+SUM(1,2)')):
            o = reenter(inner, where, text, 0.5)
            if o['timed_out']:
                o = reenter(inner, where, text, 5.0)
            obs.append(o)
    run.extra['reentrant_callbacks'] = total() - n0
    # --- host functions that translate one error value into another (raise ... from ...), in both directions, then anything
    n0 = total()
    E = _err
    pairs = [(E.VALUE, E.NOT_AVAILABLE), (E.NOT_AVAILABLE, E.VALUE), (E.NUM, E.NUM), (E.DIV_ZERO, ValueError('x')), (E.REF, E.NAME), (E.NAME, E.REF)]
    q = lib.Parser()
    for i, (a, b) in enumerate(pairs):
        def translate(_a=a, _b=b):
            try:
                raise _b
            except BaseException as x:
                raise _a from x
        q.set_function('TR%d' % i, translate)
    for text in ['TR0()', 'TR1()', '1+1', 'TR2()', 'IFERROR(TR3(),TR4())', 'TR5()+TR4()', '1+1', 'SUM(1,2)', 'TR0()&TR1()']:
        for qq in (q, lib.Parser()):
            rec, raised, timed = guarded_parse(qq, text if qq is q else '1+1')
            if timed:
                rec, raised, timed = guarded_parse(qq, text if qq is q else '1+1', 5.0)
            obs.append(observation('chain', text if qq is q else '1+1', rec, raised, timed, extra={'after': text}))
    run.extra['chained_error_values'] = total() - n0
    # --- every documented function x arity x pool
    n0 = total()
    p = mk_parser(lib)
    for n, v in enumerate(pool):
        p.set_variable(PV[n], v)
    drain(True)
    ncalls = 0
    for name in names:
        for ar in range(0, 5):
            if ar <= 2:
                argsets = itertools.product(range(len(pool)), repeat=ar)
            else:
                cnt = (40 if ar == 3 else 25) if quick else 3000
                if not quick and ar == 3:
                    argsets = itertools.product(range(len(pool)), repeat=3)
                else:
                    argsets = [tuple(rng.randrange(len(pool)) for _ in range(ar)) for _ in range(cnt)]
            for a in argsets:
                text = '%s(%s)' % (name, ','.join(PV[i] for i in a))
                rec, raised, timed = guarded_parse(p, text)
                obs.append(observation('call', text, rec, raised, timed))
                ncalls += 1
            drain()
    run.extra['function_calls'] = ncalls
    drain(True)
    # --- random unicode, truncations and unbalanced brackets
    n0 = total()
    seeds = ['SUM(1,2)*(3+A1)', 'IF(va>1,"yes","no")&"x"', '{1,2;3,4}', "'a'&\"b\"", 'IFERROR(1/0,#N/A)', '-(1+2)%']
    texts = []
    for s in seeds:
        texts += [s[:i] for i in range(len(s) + 1)] + [s[i:] for i in range(len(s))]
        texts += [s.replace('(', '', 1), s.replace(')', '', 1), s + ')', '(' + s, s.replace('"', '', 1)]
    for _ in range(3000 if quick else 60000):
        n = rng.randint(0, 12)
        texts.append(''.join(chr(rng.choice([rng.randrange(32, 127), rng.randrange(0, 0x300), rng.randrange(0, 0x11000)]))
                             for _ in range(n)).encode('utf-16', 'surrogatepass').decode('utf-16', 'replace'))
    # long inputs: bounded time must not depend on the length of an unfinished literal, the nesting depth, ...
    for q in ('"', "'"):
        for n in (25, 40, 80, 200):
            texts += [q + 'a' * n, 'SUM(1,' + q + 'ab cd ' * (n // 6), q + 'x\\' * (n // 2), '1+' + q + ' ' * n + 'z']
        for _ in range(20 if quick else 200):
            texts.append(q + ''.join(rng.choice('ab \\(),;+1#') for _ in range(rng.randint(30, 120))))
    for n in (50, 400, 5000):
        texts += ['(' * n + '1' + ')' * n, '(' * n + '1', '-' * n + '1', '1+' * n + '1', '1' * n, 'A' * n + '1',
                  'SUM(' + ','.join(['1'] * n) + ')', '{' + ';'.join(['1'] * n) + '}', 'SUM(' * n + '1' + ')' * n,
                  '"a"&' * n + '"b"', '#' * n, '1' + '%' * n, 'IF(' * n + '1']
    # astronomically large arguments in every position of every documented function, and as literals: a dozen characters of
    # input must not buy hours of computation
    huge = ['1000000000', '999999999999', '10^30', '-1000000000', '2^62', '2000000000.0', '4000000000/2', '(0-10^30)/1', '"1000000000"']
    for name in names:
        for h in (huge if not quick else [huge[0], huge[3], huge[(len(name)) % 4 + 1], huge[5 + len(name) % 4]]):
            texts += ['%s(%s)' % (name, h), '%s(2,%s)' % (name, h), '%s(%s,2)' % (name, h), '%s(2,3,%s)' % (name, h),
                      '%s(2,%s,3)' % (name, h), '%s(%s,2,3)' % (name, h), '%s(1,2,3,%s)' % (name, h)]
    # criteria and patterns with every kind of dangling escape, operator and wildcard, for the functions that interpret them
    crits = ['a*~', '~', '*~', '?~', 'a~', '~~', '~*', '~?', '>', '<', '<>', '>=', '=', '*', '?', '**', '>~', '>*', '>1e', '>1e5', '<=-', 'a[b', 'a]',
             '[', '[!', '[a-', 'a\\\\', '{', '(', ')', '^$', '.*', '%', '>=<=', '=>1', '>>1', ' >1', '> 1', '"', "'"]
    for c in crits:
        cq = c.replace('"', '""')
        for t in ('COUNTIF({"ab";"a~";1;2},"%s")', 'SUMIF({1;2;3},"%s")', 'AVERAGEIF({"a";"b"},"%s",{1;2})', 'SUMIFS({1;2},{"ab";"a~"},"%s")',
                  'MAXIFS({1;2},{1;2},"%s")', 'AVERAGEIFS({1;2},{"x";"y"},"%s")', 'MATCH("%s",{"ab";"a~";"a*"},0)', 'SUBSTITUTE("a~b*","%s","x")'):
            texts.append(t % cq)
    texts += ['9^999999999', '2^99999999', '10^400', '7^77777', '99^9999999', '1^999999999999', '0^0', '2^3^999999999',
              '999999999%', '10^30*10^30', '"a"&10^400', '-9^999999999', '(2^99999999)=1']
    # results longer than any limit a spreadsheet has for a cell
    texts += ['"' + 'a' * 33000 + '"', '"' + 'ab' * 20000 + '"&"' + 'cd' * 20000 + '"', "'" + 'x y' * 30000 + "'",
              'CONCATENATE("' + 'q' * 20000 + '","' + 'r' * 20000 + '")', '"' + 'é' * 40000 + '"&1']
    texts += ['"' + 'a b ' * 3000 + '"', ' ' * 9000, ' ' * 9000 + '1', 'SUM(' + ' ' * 9000 + '1)', '"x"&' * 3000 + '"y"']
    for i, (out, raised, timed) in enumerate(isolated_batch(texts)):
        o = observation('text', texts[i], None, raised, timed)
        if out is not None:
            o['out'] = out
        obs.append(o)
    run.extra['texts'] = total() - n0
    samples.append(obs[-1]['in'])
    drain(True)
    run.exhaustive = not quick
    run.samples = samples[:3]
    return run.finish()
