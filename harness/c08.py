# -*- coding: utf-8 -*-
"""C08 - error values propagate through operators and can be trapped.  MC_C08 checks the trapping
laws and strictness on XLEval over trees with error-producing leaves and exports every tree; each is
evaluated on the real parser (custom functions returning / raising error values installed) and
judged by TLC (Trace_Eval, clause 'value').  C2S: deeper random trees."""
import json
import os
import random

from . import core, suite
from . import formula as F
from .values import enc

FN = {'D': '#DIV/0!', 'A': '#N/A', 'V': '#VALUE!', 'N': '#NUM!', 'E': '#ERROR!', 'R': '#REF!', 'M': '#NAME?', 'L': '#NULL!',
      'G': '#GETTING_DATA'}
LIT = ['#ERROR!', '#DIV/0!', '#NAME?', '#N/A', '#NULL!', '#NUM!', '#REF!', '#VALUE!']


def the_env():
    env = F.empty_env()
    for tag, code in FN.items():
        env['funcs']['ERRV' + tag] = {'mode': 'const', 'v': {'t': 'err', 'c': code}, 'i': 0}
        env['funcs']['ERRR' + tag] = {'mode': 'raise', 'v': {'t': 'err', 'c': code}, 'i': 0}
    return env


def observe(lib, asts, env):
    obs = []
    h = F.Harnessed(lib, env)
    for n, ast in enumerate(asts):
        if n % 2000 == 0:
            h = F.Harnessed(lib, env)
        text = F.render(ast)
        o = h.parse(text, again=n % 3 == 2)
        o.update({'id': len(obs) + 1, 'ast': ast, 'env': env, 'formula': text, 'checks': ['value']})
        obs.append(o)
    return obs


def P(x):
    return F.paren(x) if x['k'] in ('bin', 'neg') else x


def rand_leaf(rng):
    k = rng.random()
    if k < 0.35:
        # also: the empty text, a blank (NULL), and text that is spelled like an error code but is text
        return rng.choice([F.num('1'), F.num('2'), F.num('0'), F.string('qq'), F.num('2.5'), F.string(''), F.var('NULL'),
                           F.string(rng.choice(['#N/A', '#DIV/0!', '#VALUE!', '#REF!', '#NAME?'])), F.var('TRUE'),
                           F.binop('&', F.string('#N'), F.string('/A'))])
    if k < 0.5:
        return F.errlit(rng.choice(LIT))
    if k < 0.6:
        return F.binop('/', F.num(rng.choice(['1', '7'])), F.num('0'))
    if k < 0.65:
        return F.call('NA')
    tag = rng.choice('DAVNDAVNERMLG')
    if k < 0.8:
        return F.call('ERRV' + tag)
    if k < 0.93:
        return F.call('ERRR' + tag)
    return F.call(rng.choice(['SUM', 'ABS']), F.call('ERRV' + tag))


def rand_tree(rng, depth):
    if depth == 0 or rng.random() < 0.2:
        return rand_leaf(rng)
    k = rng.random()
    if k < 0.5:
        op = rng.choice(['+', '-', '*', '/', '&', '=', '<', '>', '<=', '>=', '<>'])
        return F.binop(op, P(rand_tree(rng, depth - 1)), P(rand_tree(rng, depth - 1)))
    if k < 0.6:
        sub = P(rand_tree(rng, depth - 1))
        if rng.random() < 0.35:       # two (or three) minus signs in a row, as in the --x idiom
            sub = F.neg(sub) if rng.random() < 0.8 else F.neg(F.neg(sub))
        return F.neg(sub)
    x = rand_tree(rng, depth - 1)
    f = rng.choice(['ISERROR', 'ISERR', 'ISNA', 'ERROR.TYPE', 'IFERROR', 'IFNA', 'SUM', 'IF', 'IFERROR2'])
    if f == 'IFERROR':
        return F.call('IFERROR', x, rand_tree(rng, depth - 1))
    if f == 'IFERROR2':
        return F.call('IFERROR', F.num('9'), x)
    if f == 'IFNA':
        return F.call('IFNA', x, F.num('9'))
    if f == 'IF':
        return F.call('IF', x, F.num('1'), F.num('2'))
    return F.call(f, x)


def main(tier, replay=None):
    run = core.Run('C08', tier, keep_replays=bool(replay))
    lib = core.load_library()
    names, bconst = core.builtins_constant()
    consts = {'Builtins': bconst}
    env = the_env()
    run.rule = ('one observation = one expression tree with error-producing leaves (literal, 1/0, NA(), custom function '
                'returning / raising an error value, built-in raising from an argument) evaluated by Parser.parse; '
                'distinct by formula text; non-trivial = contains an error source')
    run.assumptions = ['#GETTING_DATA cannot be written as a literal (the lexer stops at the underscore); it is produced '
                       'through functions only']
    if replay:
        c = json.load(open(replay))['case']
        obs = observe(lib, [c['ast']], c['env'])
        v = core.validate_obs(run, 'Trace_Eval', obs, 'replay', consts)
        core.tally(run, obs, v, 'c08')
        return run.finish()
    quick = tier == 'quick'
    cf = os.path.join(core.scratch(), 'c08_cases.ndjson')
    r = core.run_tlc('MC_C08.tla', 'MC_C08_quick.cfg' if quick else 'MC_C08_thorough.cfg', env={'CASE_FILE': cf},
                     timeout=3000)
    run.add_tlc('MC_C08', r)
    asts = [c['ast'] for c in core.read_cases(cf)]
    run.extra['tlc_trees'] = len(asts)
    rng = random.Random(run.seed)
    if quick and len(asts) > 14000:
        asts = rng.sample(asts, 14000)
    else:
        run.exhaustive = True
    asts += [rand_tree(rng, rng.randint(2, 5)) for _ in range(4000 if quick else 100000)]
    # every error source against the plain values an implementation is tempted to special-case (empty text, blank,
    # text spelled like a code), under every operator and every trapping function
    srcs = [F.errlit(c) for c in LIT[:4]] + [F.binop('/', F.num('1'), F.num('0')), F.call('NA'), F.call('ERRVA'), F.call('ERRRD'),
                                             F.call('SUM', F.call('ERRVN'))]
    srcs += [F.call('ERRV' + t) for t in 'ERMLG'] + [F.call('ERRR' + t) for t in 'EG']
    # errors that operators produce themselves: arrays of different lengths, text that is no number, a date before 1900
    srcs += [F.binop('+', F.arr(F.num('1'), F.num('2')), F.arr(F.num('1'), F.num('2'), F.num('3'))), F.binop('*', F.string('qq#'), F.num('2')),
             F.binop('/', F.arr(F.num('1')), F.num('0'))]
    plains = [F.string(''), F.var('NULL'), F.string('#N/A'), F.string('#DIV/0!'), F.num('0'), F.var('FALSE'), F.string('qq'),
              F.arr(F.num('1'), F.num('2')), F.arr(F.string('a'))]
    for e in srcs:
        for pl in plains:
            for op in ('&', '+', '=', '<>', '<', '*'):
                asts.append(F.binop(op, P(e), pl))
                asts.append(F.binop(op, pl, P(e)))
                asts.append(F.call('ISERROR', F.binop(op, pl, P(e))))
                asts.append(F.call('IFERROR', F.binop(op, P(e), pl), F.num('9')))
    # an operand as long as a cell can hold (and longer): the error of the other operand is still the answer
    for e in (F.call('NA'), F.binop('/', F.num('1'), F.num('0')), F.errlit(LIT[0]), F.call('ERRVA')):
        for n in (32764, 33000):
            pl = F.string('x' * n)
            asts += [F.binop('&', P(e), pl), F.binop('&', pl, P(e)), F.call('ISNA', F.binop('&', pl, P(e))),
                     F.call('ERROR.TYPE', F.binop('&', P(e), pl)), F.binop('=', pl, P(e)), F.binop('<', P(e), pl)]
    for e in srcs:
        for f in ('ISERROR', 'ISERR', 'ISNA', 'ERROR.TYPE'):
            asts.append(F.call(f, e))
            asts.append(F.call(f, F.call('SUM', e)))
        asts += [F.call('IFERROR', e, F.num('9')), F.call('IFNA', e, F.num('9')), F.binop('=', F.call('ISERROR', e),
                 F.call('OR', F.call('ISERR', e), F.call('ISNA', e)))]
    for pl in plains:
        for f in ('ISERROR', 'ISERR', 'ISNA', 'ERROR.TYPE'):
            asts.append(F.call(f, pl))
        asts += [F.call('IFNA', pl, F.num('9')), F.call('IFERROR', pl, F.num('9')), F.call('IFERROR', F.num('9'), pl),
                 F.call('IFNA', F.binop('&', pl, F.string('')), F.num('9'))]
    obs = observe(lib, asts, env)
    so = suite.observations({'IFERROR','IFNA','ISERROR','ISERR','ISNA','ERROR.TYPE','NA'}, len(obs) + 1)   # the same functions as the repository's own tests call them
    run.extra['calls_from_repository_tests'] = len(so)
    obs += so
    CH = 20000
    for k in range(0, len(obs), CH):
        part = obs[k:k + CH]
        v = core.validate_obs(run, 'Trace_Eval', part, 'p%d' % (k // CH), consts)
        core.tally(run, part, v, 'c08', key=lambda o: o['formula'])
    run.samples = [{k: o[k] for k in ('formula', 'out')} for o in (obs[11], obs[len(obs) // 2], obs[-1])]
    return run.finish()
