# -*- coding: utf-8 -*-
"""C11 - aggregates equal their definitions over exactly the selected items.  MC_C11: order-free-ness
under permutation/regrouping, error items, selection laws on XLAgg for every list in the bound; each
list is rendered in several groupings and orders for every statistic and the criteria functions and
evaluated on the real parser; random lists to length 40, partitions, criteria strings of the three
forms; irrational statistics (STDEV*, GEOMEAN) through their defining relation.  Trace_Eval."""
import json
import os
import random
from fractions import Fraction

from . import core, suite, fncases, values
from . import formula as F
from .values import enc, enc_num

STATS = ['SUM', 'PRODUCT', 'AVERAGE', 'MIN', 'MAX', 'COUNT', 'MEDIAN', 'MODE', 'VAR', 'VARP', 'AVEDEV', 'VAR.S', 'VAR.P', 'MODE.SNGL']
ERRWIN = ['SUM', 'PRODUCT', 'AVERAGE', 'MIN', 'MAX', 'MEDIAN']
CRITS = ['>0', '<=1', '=1', '<>1', 1, '3', '>1.5', '<-1', '>=3', 1.5, '=0', 3.0, '1.0', '>1e-05', '<=1E0', '>=1.5e0', '<1e1', '>2E-1', '<>1e+0']   # 3.0: a float criterion equal to integer cells


def arr(items):
    return {'t': 'arr', 'a': list(items)}


def groupings(rng, xs):
    """the same multiset as flat arguments, one array, nested arrays, a permutation, a random partition"""
    out = [list(xs), [arr(xs)]]
    # one argument, nested three arrays deep, and four deep for longer lists
    out.append([arr([xs[0], arr([arr(xs[1:])])])] if len(xs) >= 2 else [arr([arr([arr(xs)])])])
    if len(xs) >= 3:
        out.append([xs[0], arr([arr([xs[1], arr([arr(xs[2:])])])])])
    if len(xs) >= 2:
        out.append([xs[0], arr([xs[1], arr(xs[2:])])] if len(xs) > 2 else [xs[1], xs[0]])
        p = list(xs)
        rng.shuffle(p)
        out.append(p)
        k = rng.randint(1, len(p) - 1)
        out.append([arr(p[:k]), arr(p[k:])] if rng.random() < 0.5 else p[:k] + [arr(p[k:])])
    return out


def as_float(v):
    return dict(v, f=True) if v.get('t') == 'num' and v.get('d') == 1 else v


def crit_cases(rng, xs):
    cases = []
    r = arr(xs)
    fr = arr([as_float(x) for x in xs])      # the same cells held as floats: 2.0 equals 2 whatever the spelling
    for c in (1, 3, 0):
        cases.append({'f': 'COUNTIF', 'args': [fr, enc(c)]})
        cases.append({'f': 'SUMIF', 'args': [fr, enc(c)]})
        cases.append({'f': 'SUMIFS', 'args': [r, fr, enc(c)]})
    for c in CRITS:
        cv = as_float(enc(int(c))) if isinstance(c, float) and c == int(c) else enc(c)
        cases.append({'f': 'SUMIF', 'args': [r, cv]})
        cases.append({'f': 'COUNTIF', 'args': [r, cv]})
        cases.append({'f': 'AVERAGEIF', 'args': [r, cv]})
    c1, c2 = enc(rng.choice(CRITS)), enc(rng.choice(CRITS))
    other = arr([enc(rng.choice([1, 2, 3, -1, 0.5])) for _ in xs])
    for f in ('SUMIFS', 'AVERAGEIFS', 'MAXIFS'):
        cases.append({'f': f, 'args': [r, r, c1]})
        cases.append({'f': f, 'args': [other, r, c1, other, c2]})
    cases.append({'f': 'AVERAGEIF', 'args': [r, c1, other]})
    return cases


def rnum(rng, squares=False):
    if squares:
        return enc_num(Fraction(rng.randint(-500, 500), rng.choice([1, 1, 2, 10])))
    return enc_num(Fraction(rng.randint(-10000, 10000), rng.choice([1, 1, 1, 10, 100, 2, 4])))


def rand_cases(rng):
    k = rng.randrange(10)
    out = []
    if k <= 3:
        n = rng.choice([1, 2, 3, 5, 8, 13, 21, 40, rng.randint(1, 40)])
        xs = [rnum(rng) for _ in range(n)]
        if rng.random() < 0.3:
            xs += [rng.choice(xs) for _ in range(rng.randint(1, 5))]
        for f in ('SUM', 'AVERAGE', 'MIN', 'MAX', 'COUNT', 'MEDIAN', 'MODE'):
            for g in groupings(rng, xs)[rng.randrange(2):][:4]:
                out.append({'f': f, 'args': g})
        out.append({'f': 'LARGE', 'args': [arr(xs), enc(rng.randint(1, len(xs)))]})
    elif k <= 5:
        n = rng.choice([1, rng.randint(2, 12), rng.randint(2, 12), rng.randint(2, 12)])   # one item: population forms are 0
        xs = [rnum(rng, True) for _ in range(n)]
        if rng.random() < 0.4:       # a large mean with a small spread, or all items equal: where one-pass formulas cancel
            base = rng.randint(-2990, 2990)
            spread = rng.choice([0, 0, 1, 3])
            xs = [enc_num(Fraction(base + rng.randint(-spread, spread), 10)) for _ in range(n)]
        for f in ('VAR', 'VARP', 'AVEDEV', 'VAR.S', 'VAR.P'):
            for g in groupings(rng, xs)[:3]:
                out.append({'f': f, 'args': g})
    elif k == 6:
        n = rng.randint(1, 6)
        xs = [enc_num(Fraction(rng.randint(-30, 30), rng.choice([1, 1, 2]))) for _ in range(n)]
        for g in groupings(rng, xs):
            out.append({'f': 'PRODUCT', 'args': g})
        ys = [enc_num(Fraction(rng.randint(1, 12), rng.choice([1, 1, 2]))) for _ in range(rng.randint(1, 5))]
        for g in groupings(rng, ys)[:3]:
            out.append({'f': 'HARMEAN', 'args': g})
    elif k == 7:
        n = rng.randint(2, 6)
        ys = [rnum(rng, True) for _ in range(n)]
        xs2 = [enc(v) for v in rng.sample(range(-20, 21), n)]
        out.append({'f': 'SLOPE', 'args': ys + xs2})
    elif k == 8:
        n = rng.randint(1, 20)
        xs = [enc(rng.choice([rng.randint(-5, 6), rng.randint(-5, 6) + 0.5])) for _ in range(n)]
        out += crit_cases(rng, xs)
        words = [rng.choice(['apple', 'apricot', 'banana', 'ab', 'a', 'b', 'cab']) for _ in range(n)]
        tr = arr([enc(w) for w in words])
        for pat in ('a*', '*a', '?b', 'b*a*', 'apple', 'zz*', '*', 'a?*', '?b*', '?*', 'a?p*', '*?', 'a??*', '?', '??*b'):
            out.append({'f': 'COUNTIF', 'args': [tr, enc(pat)]})
            out.append({'f': 'SUMIFS', 'args': [arr(xs), tr, enc(pat)]})
            out.append({'f': 'MAXIFS', 'args': [arr(xs), tr, enc(pat)]})
            out.append({'f': 'AVERAGEIFS', 'args': [arr(xs), tr, enc(pat)]})
    else:
        n = rng.randint(1, 8)
        xs = [rnum(rng) for _ in range(n)]
        e = {'t': 'err', 'c': rng.choice(['#N/A', '#DIV/0!', '#VALUE!', '#NUM!', '#REF!'])}
        pos = rng.randint(0, n)
        ys = xs[:pos] + [e] + xs[pos:]
        for f in ERRWIN:
            out.append({'f': f, 'args': ys})
            out.append({'f': f, 'args': [arr(ys)]})
    return out


def relation_obs(lib, rng, n):
    """STDEV / STDEVP / GEOMEAN through their defining relations, as single formulas"""
    out = []
    V = F.var
    for _ in range(n):
        k = rng.randint(2, 10)
        xs = [rng.choice([rng.randint(-50, 50), rng.randint(-500, 500) / 10]) for _ in range(k)]
        if rng.random() < 0.35:      # all items equal, or a large mean with a small spread
            b = rng.randint(-2990, 2990)
            sp = rng.choice([0, 0, 1, 2])
            xs = [(b + rng.randint(-sp, sp)) / 10 for _ in range(k)]
        env = F.empty_env()
        env['vars'] = {'xs': enc(xs), 'zero': enc(0), 'one': enc(1), 'vn': enc(k)}
        for sd, var in (('STDEV', 'VAR'), ('STDEVP', 'VARP'), ('STDEV.S', 'VAR.S'), ('STDEV.P', 'VAR.P')):
            a = F.binop('-', F.binop('*', F.call(sd, V('xs')), F.call(sd, V('xs'))), F.call(var, V('xs')))
            out.append((F.binop('+', a, V('zero')), env, 0))
            out.append((F.binop('>=', F.call(sd, V('xs')), V('zero')), env, True))
        ps = [rng.choice([rng.randint(1, 9), rng.randint(1, 40) / 4]) for _ in range(rng.randint(1, 6))]
        env2 = F.empty_env()
        env2['vars'] = {'ps': enc(ps), 'vn': enc(len(ps)), 'zero': enc(0)}
        g = F.binop('/', F.call('POWER', F.call('GEOMEAN', V('ps')), V('vn')), F.call('PRODUCT', V('ps')))
        out.append((F.binop('+', g, V('zero')), env2, 1))
        # long lists of large (or tiny) values: the product leaves the range of a float, the mean does not -
        # n * LN(GEOMEAN) = sum of the logarithms (LN: C16)
        m = rng.randint(15, 40)
        big = [rng.choice([rng.randint(10 ** 7, 10 ** 16), rng.uniform(1e8, 1e17)]) if rng.random() < 0.7 else rng.uniform(1e-12, 1e-7)
               for _ in range(m)]
        if rng.random() < 0.5:
            big = [rng.uniform(1e-14, 1e-8) for _ in range(m)]
        env4 = F.empty_env()
        env4['vars'] = {'ps': {'t': 'arr', 'a': [enc(x) if isinstance(x, int) else {'t': 'flt', 'r': repr(x)} for x in big]},
                        'vn': enc(m), 'zero': enc(0)}
        sumln = None
        for i, x in enumerate(big):
            qn = 'q_' + chr(97 + i // 26) + chr(97 + i % 26)        # (not cell-shaped)
            env4['vars'][qn] = enc(x) if isinstance(x, int) else {'t': 'flt', 'r': repr(x)}
            t = F.call('LN', V(qn))
            sumln = t if sumln is None else F.binop('+', sumln, t)
        rel = F.binop('/', F.binop('*', F.call('LN', F.call('GEOMEAN', V('ps'))), V('vn')), F.paren(sumln))
        out.append((F.binop('+', rel, V('zero')), env4, 1))
    return out


def main(tier, replay=None):
    run = core.Run('C11', tier, keep_replays=bool(replay))
    values.TOL[0] = 1e-9
    lib = core.load_library()
    names, bconst = core.builtins_constant()
    consts = {'Builtins': bconst}
    run.rule = ('one observation = one aggregate call over a list in one grouping/order (flat arguments, array, nested arrays; '
                'bound as variables or written as literals), one criteria call, or one defining-relation formula; distinct by '
                'formula and bindings; non-trivial = lists of length >= 2')
    run.assumptions = ['items are integers and 1-2-place decimals; sizes are limited by TLC\'s 32-bit rationals (linear statistics: 50 '
                       'items up to 10^4; squares: 12 items up to 500 with one decimal; PRODUCT: 6 items up to 30; HARMEAN: 5 positive '
                       'items up to 12) - beyond that the expectation is "unspecified"',
                       'float results are accepted within 1e-9 relative of the exact rational (several operations per statistic)',
                       'STDEV/STDEVP and GEOMEAN are irrational: they are checked through s*s - VAR = 0, s >= 0 and g^n / PRODUCT = 1, '
                       'evaluated by the library itself (operators: C06, POWER: C16)',
                       'MODE only with a unique mode; SLOPE in the flat y..., x... convention with non-degenerate x',
                       'criteria cells are numeric for operator/bare-number criteria and lower-case text for text criteria']
    if replay:
        c = json.load(open(replay))['case']
        h = F.Harnessed(lib, c['env'])
        o = h.parse(c['formula'])
        o.update({'id': 1, 'ast': c['ast'], 'env': c['env'], 'formula': c['formula'], 'checks': ['value'], 'in': c['in']})
        v = core.validate_obs(run, 'Trace_Eval', [o], 'replay', consts)
        core.tally(run, [o], v, 'c11')
        return run.finish()
    quick = tier == 'quick'
    cf = os.path.join(core.scratch(), 'c11_cases.ndjson')
    r = core.run_tlc('MC_C11.tla', 'MC_C11_quick.cfg' if quick else 'MC_C11_thorough.cfg', env={'CASE_FILE': cf}, timeout=3000)
    run.add_tlc('MC_C11', r)
    lists = [c['xs'] for c in core.read_cases(cf)]
    run.extra['tlc_lists'] = len(lists)
    rng = random.Random(run.seed)
    cases = []
    for li, xs in enumerate(lists):
        for f in [STATS[(li + j) % 11] for j in range(3 if quick else 6)]:
            gs = groupings(rng, xs)
            for g in ([gs[0], gs[2], gs[-1]] if quick else [gs[0]] + gs[2:6]):
                cases.append({'f': f, 'args': g})
        if not quick or rng.random() < 0.12:
            cases += crit_cases(rng, xs)
            for f in ERRWIN:
                cases.append({'f': f, 'args': xs + [{'t': 'err', 'c': '#N/A'}]})
    for _ in range(280 if quick else 3000):
        cases += rand_cases(rng)
    part_no = [0]
    samples = []

    def judge(part):
        """validate one batch and forget it (the thorough tier makes several hundred thousand observations)"""
        for n, o in enumerate(part, 1):
            o['id'] = n
        v = core.validate_obs(run, 'Trace_Eval', part, 'p%d' % part_no[0], consts)
        part_no[0] += 1
        core.tally(run, part, v, 'c11', key=lambda o: o['formula'] + json.dumps(o['env']['vars'], sort_keys=True),
                   nontrivial=lambda o: len(json.dumps(o['env']['vars'])) > 60 or len(o['formula']) > 12)
        if len(samples) < 2 and len(part) > 40:
            samples.append({'formula': part[40]['formula'], 'vars': part[40]['env']['vars'], 'out': part[40]['out']['res']})

    CASES = 12000
    for k in range(0, len(cases), CASES):
        judge(fncases.observe(lib, cases[k:k + CASES], ranges=False, twins=True))
    # the host edits its lists in place between two evaluations of the same call
    mo = fncases.observe_after_mutation(lib, cases[::7][:800 if quick else 10000])
    run.extra['evaluations_after_in_place_edit'] = len(mo)
    for k in range(0, len(mo), 2500):      # (10000 at once were a 148 MB batch that kept TLC at its heap limit for over half an hour)
        judge(mo[k:k + 2500])
    obs = []
    so = suite.observations({'SUM','PRODUCT','AVERAGE','MIN','MAX','COUNT','MEDIAN','MODE','MODE.SNGL','VAR','VAR.S','VARP','VAR.P','AVEDEV','HARMEAN','LARGE','SLOPE','SUMIF','COUNTIF','AVERAGEIF','SUMIFS','AVERAGEIFS','MAXIFS'}, len(obs) + 1)   # the same functions as the repository's own tests call them
    run.extra['calls_from_repository_tests'] = len(so)
    obs += so
    # one host list used more than once in a call (a variable named twice, twice inside an array literal)
    ndup = 0
    for _ in range(120 if quick else 5000):
        xs = [rnum(rng) for _ in range(rng.randint(1, 8))]
        env = F.empty_env()
        env['vars'] = {'xs': arr(xs), 'ys': arr([arr(xs[:1]), arr(xs[1:])]) if len(xs) > 1 else arr(xs)}
        f = rng.choice(['SUM', 'COUNT', 'AVERAGE', 'MEDIAN', 'MAX', 'MIN', 'PRODUCT', 'VARP', 'AVEDEV'])
        X, Y = F.var('xs'), F.var('ys')
        for ast in (F.call(f, X, X), F.call(f, X, F.num('7'), X), F.call(f, F.arr(X, X)), F.call(f, Y, X, Y)):
            h = F.Harnessed(lib, env)
            text = F.render(ast)
            o = h.parse(text)
            o.update({'id': len(obs) + 1, 'ast': ast, 'env': env, 'formula': text, 'checks': ['value'],
                      'in': {'formula': text, 'vars': env['vars']}})
            obs.append(o)
            ndup += 1
    run.extra['calls_naming_one_host_list_twice'] = ndup
    for a, env, want in relation_obs(lib, rng, 150 if quick else 4000):
        h = F.Harnessed(lib, env)
        text = F.render(a)
        o = h.parse(text)
        # the relation's expected value is part of the tree: compare the formula with its expected constant
        o.update({'id': len(obs) + 1, 'ast': F.binop('=', F.paren(a), F.var('TRUE' if want is True else 'want')), 'env': env,
                  'formula': text, 'checks': [], 'in': {'formula': text, 'vars': env['vars']}})
        rel_ok = (o['out']['res'] == enc(want)) and o['out']['err'] == ''
        # verdict still comes from TLC: the observation is re-expressed as the literal comparison  <result> = <want>
        env3 = dict(env)
        env3['vars'] = dict(env['vars'], got=o['out']['res'] if o['out']['err'] == '' else {'t': 'err', 'c': o['out']['err']}, want=enc(want))
        o['ast'] = F.binop('=', F.var('got'), F.var('want'))
        o['env'] = env3
        o['out'] = {'keys': ['error', 'result'], 'res': enc(True), 'err': '', 'errkind': 'none'}
        o['checks'] = ['value']
        obs.append(o)
    for k in range(0, len(obs), 4000):
        judge(obs[k:k + 4000])
    # integers no double can hold: SUM is still their exact sum, however the items are grouped (Trace_Big)
    from .c06 import signed, big_out
    big = []
    bp = lib.Parser()
    for _ in range(150 if quick else 5000):
        a = rng.choice([2 ** 53 + 1, 10 ** 17 + 1, rng.randint(2 ** 53, 10 ** 30), 10 ** 400]) * rng.choice([1, 1, -1])
        b = rng.choice([2, 1, -a + 7, -a, rng.randint(-10 ** 6, 10 ** 6), rng.randint(2 ** 53, 10 ** 20), 1 - a])
        bp.set_variable('va', a)
        bp.set_variable('vb', b)
        bp.set_variable('vl', [a, b])
        f1, f2 = rng.choice([('SUM(va,vb)', 'SUM(vb,va)'), ('SUM(vl)', 'SUM({0},vl)'), ('SUM(va,0,vb)', 'SUM(vb,{0,0},va)')])
        big.append({'kind': 'big', 'op': '+', 'a': signed(a), 'b': signed(b), 'k': 0, 'formula': f1, 'out': big_out(bp.parse(f1)),
                    'out2': big_out(bp.parse(f2)), 'in': {'formula': f1 + ' / ' + f2, 'a': str(a)[:40], 'b': str(b)[:40]}})
    for n, o in enumerate(big, 1):
        o['id'] = n
    v = core.validate_obs(run, 'Trace_Big', big, 'big')
    core.tally(run, big, v, 'c11-big', key=lambda o: json.dumps(o['in'], sort_keys=True))
    run.extra['big_integer_sums'] = len(big)
    run.exhaustive = True
    run.samples = samples
    return run.finish()
