# -*- coding: utf-8 -*-
"""C12 - logical functions are truth-functional; type predicates classify values.  MC_C12 enumerates
argument tuples, checks the laws on XLFuncs and exports every call; each is evaluated on the real
parser (arguments as variables and as literals) and judged by TLC (Trace_Eval).  C2S: longer tuples,
floats, deeper nesting."""
import json
import os
import random

from . import core, suite, fncases, values
from .values import enc


def rand_case(rng):
    def tv(depth=0):
        k = rng.random()
        if k < 0.12 and depth < 2:
            return {'t': 'arr', 'a': [tv(depth + 1) for _ in range(rng.randint(1, 3))]}
        if k > 0.9:       # numbers other than zero, however small or large
            return enc(rng.choice([1e-16, -1e-16, 1e-300, 5e-324, 0.1 + 0.2 - 0.3, 2.0 ** 70, -1e300, 10 ** 25]))
        return rng.choice([enc(True), enc(False), enc(0), enc(1), enc(-2.5), enc(3), enc(0.5), {'t': 'blank'}, enc(0.0)])
    f = rng.choice(['AND', 'OR', 'XOR', 'AND', 'OR', 'XOR', 'NOT', 'ISEVEN', 'ISODD', 'IFS', 'SWITCH', 'IF', 'PRED', 'PRED'])
    if f == 'PRED':
        f = rng.choice(['ISNUMBER', 'ISTEXT', 'ISLOGICAL', 'ISBLANK', 'ISERROR', 'ISERR', 'ISNA', 'ISNONTEXT'])
        v = rng.choice([enc(x) for x in ('#N/A', '#DIV/0!', '#VALUE!', '#NAME?', '#n/a', 'TRUE', 'FALSE', '', ' ', '0', '1e3', 'None',
                                         1e-300, 2.0 ** 70, 10 ** 25, 0, 0.0, -0.0, 1, 2.5, True, False)] +
                       [{'t': 'blank'}, {'t': 'num', 'n': 2, 'd': 1, 'f': True}] +
                       [{'t': 'err', 'c': c} for c in ('#N/A', '#DIV/0!', '#VALUE!', '#REF!', '#NAME?', '#NUM!', '#NULL!', '#ERROR!')])
        return {'f': f, 'args': [v]}
    if f in ('AND', 'OR', 'XOR'):
        return {'f': f, 'args': [tv() for _ in range(rng.randint(1, 6))]}
    if f == 'NOT':
        return {'f': f, 'args': [rng.choice([enc(True), enc(False), enc(0), enc(2), enc(-0.5), {'t': 'blank'}, enc(1e-16), enc(-5e-324)])]}
    if f in ('ISEVEN', 'ISODD'):
        if rng.random() < 0.3:
            # floats a unit in the last place off a whole number: the integer part is the one below (toward zero)
            import math
            w = rng.choice([1, 2, 3, 7, 8, 10, 435, 1000, rng.randint(1, 99999)])
            x = math.nextafter(float(w), rng.choice([0.0, 1e9])) * rng.choice([1, -1])
            x = rng.choice([x, (0.7 + 0.1) * 10, 4.35 * 100, 0.1 * 3 * 10, -(0.7 + 0.1) * 10])
            v = values.flt_exact(x)
            v['ip'] = int(abs(x))
            return {'f': f, 'args': [v]}
        if rng.random() < 0.25:       # whole numbers of any size have a parity
            return {'f': f, 'args': [enc(rng.choice([1, -1]) * rng.choice([10 ** 25 + 1, 2 ** 70, 2 ** 70 + 1, 2 ** 1024, 2 ** 1024 + 1, 3 ** 700, 10 ** 399 + 7,
                                                                              10 ** 309, rng.randint(10 ** 20, 10 ** 330), 2.0 ** 70, 1e300]))]}
        return {'f': f, 'args': [enc(rng.choice([rng.randint(-50, 50), rng.randint(-50, 50) + 0.5, -0.5, 0.25, 1e6 + 1]))]}
    conds = [enc(True), enc(False), enc(0), enc(2), {'t': 'blank'}, {'t': 'err', 'c': rng.choice(['#N/A', '#DIV/0!', '#NUM!'])},
             enc(rng.choice([1e-16, 1e-300, 0.1 + 0.2 - 0.3])), enc(0.0)]
    vals = [enc(10), enc('x'), enc(30), enc([1, 2]), {'t': 'blank'}, enc(False)]
    if f == 'IF':
        return {'f': f, 'args': [rng.choice(conds), rng.choice(vals), rng.choice(vals)]}
    if f == 'IFS':
        n = rng.randint(1, 4)
        a = []
        for _ in range(n):
            a += [rng.choice(conds), rng.choice(vals)]
        return {'f': f, 'args': a}
    W = lambda n: {'t': 'num', 'n': n, 'd': 1, 'f': True}       # a whole number held as a float (4/2)
    keys = [enc(1), enc(2), enc('x'), enc('y'), enc(2.5), W(1), W(2), enc('X'), enc(''), {'t': 'blank'}, {'t': 'blank'}]
    n = rng.randint(1, 3)
    a = [rng.choice(keys)]
    for _ in range(n):
        a += [rng.choice(keys), rng.choice(vals)]
    if rng.random() < 0.5:
        a.append(rng.choice(vals))
    return {'f': f, 'args': a}


def main(tier, replay=None):
    run = core.Run('C12', tier, keep_replays=bool(replay))
    lib = core.load_library()
    names, bconst = core.builtins_constant()
    consts = {'Builtins': bconst}
    run.rule = ('one observation = one call of a logical function or type predicate with arguments bound as variables or '
                'written as literals; distinct by formula and bindings; non-trivial = all')
    run.assumptions = ['truth-valued results are accepted as TRUE/FALSE or 1/0 (Python truth values)',
                       'AND/OR/XOR/NOT with an error or text item, predicates on dates/arrays/host objects and SWITCH comparing '
                       'a logical with a number are left unspecified']
    if replay:
        c = json.load(open(replay))['case']
        obs = fncases.observe(lib, [c['in']], literal=False, subclasses=bool(c['in'].get('exotic')), force_wrap=bool(c['in'].get('exotic')))
        obs = [o for o in obs]
        if c['in']['formula'] != obs[0]['formula']:
            obs = fncases.observe(lib, [c['in']], literal=True)[-1:]
            obs[0]['id'] = 1
        v = core.validate_obs(run, 'Trace_Eval', obs, 'replay', consts)
        core.tally(run, obs, v, 'c12')
        return run.finish()
    quick = tier == 'quick'
    cf = os.path.join(core.scratch(), 'c12_cases.ndjson')
    r = core.run_tlc('MC_C12.tla', 'MC_C12_quick.cfg' if quick else 'MC_C12_thorough.cfg', env={'CASE_FILE': cf})
    run.add_tlc('MC_C12', r)
    cases = core.read_cases(cf)
    run.extra['tlc_cases'] = len(cases)
    rng = random.Random(run.seed)
    cases += [rand_case(rng) for _ in range(3000 if quick else 60000)]
    obs = fncases.observe(lib, cases, twins=True, subclasses=True)
    so = suite.observations({'AND','OR','XOR','NOT','IF','IFS','SWITCH','ISNUMBER','ISTEXT','ISLOGICAL','ISBLANK','ISERROR','ISERR','ISNA','ISNONTEXT','ISEVEN','ISODD','TRUE','FALSE'}, len(obs) + 1)   # the same functions as the repository's own tests call them
    run.extra['calls_from_repository_tests'] = len(so)
    obs += so
    CH = 25000
    for k in range(0, len(obs), CH):
        part = obs[k:k + CH]
        v = core.validate_obs(run, 'Trace_Eval', part, 'p%d' % (k // CH), consts)
        core.tally(run, part, v, 'c12', key=lambda o: o['formula'] + json.dumps(o['env']['vars'], sort_keys=True))
    run.exhaustive = True
    run.samples = [{'formula': o['formula'], 'vars': o['env']['vars'], 'out': o['out']['res']} for o in (obs[5], obs[-1])]
    return run.finish()
