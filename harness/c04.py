# -*- coding: utf-8 -*-
"""C04 - precedence, associativity, parentheses.  MC_C04: every tree with <= MaxOps operators, the
shift-reduce machine accepts each rendering with exactly that tree (TLC, stepwise) and the tree
with its Min/Full/Red token renderings is exported.  Random deep trees are rendered by the
specification too (Render_C04).  The real parser evaluates the three renderings; Trace_C04 requires
each to equal the exact value of the tree (XLEval) and all three to be identical."""
import json
import os
import random

from . import core
from . import formula as F
from . import values
from .values import enc, outcome


def base_env():
    env = F.empty_env()
    env['vars'] = {'vc': enc(3), 'vk': enc(11)}
    env['cellsets'] = [{'key': F.cps('C5'), 'vals': [enc(5)]}, {'key': F.cps('A1'), 'vals': [enc(13)]}]
    return env


def leaves(n, out):
    if n['k'] == 'bin':
        leaves(n['l'], out)
        leaves(n['r'], out)
    elif n['k'] == 'neg':
        leaves(n['e'], out)
    else:
        out.append(n)
    return out


def text_of(tokens, lv, ws=None):
    parts = []
    for t in tokens:
        if t.startswith('L') and t[1:].isdigit():
            parts.append(F.render(lv[int(t[1:]) - 1]))
        else:
            parts.append(t)
    if ws is None:
        return ''.join(parts)
    return ''.join(p + ws() for p in parts)


PRIMES = [2, 3, 5, 7, 11, 13, 17, 19, 23, 29, 31, 37, 41, 43, 47, 53, 59, 61, 67, 71, 73, 79, 83, 89, 97, 101]


def rand_leaf(rng, i, env):
    v = PRIMES[i % len(PRIMES)]
    k = rng.randrange(6)
    if k == 0:
        return F.num(str(v))
    if k == 1:
        return F.num(rng.choice(['0.5', '0.25', '1.5', '2.75', '.5', '0.125']))
    if k == 2:
        name = 'v_%d' % i
        env['vars'][name] = enc(v)
        return F.var(name)
    if k == 3:
        label = rng.choice(['', '$']) + 'Q' + rng.choice(['', '$']) + str(100 + i)
        env['cellsets'].append({'key': F.cps('Q%d' % (100 + i)), 'vals': [enc(v)]})
        return F.cell(label)
    if k == 4:
        return F.call('SUM', F.num(str(v)), F.num('1'))
    return F.call(rng.choice(['ABS', 'SUM']), F.neg(F.num(str(v))))


def rand_tree(rng, nops, env, counter):
    if nops == 0:
        counter[0] += 1
        return rand_leaf(rng, counter[0], env)
    r = rng.random()
    if r < 0.12:
        return F.neg(rand_tree(rng, nops - 1, env, counter))
    op = rng.choice(['+', '-', '*', '/', '+', '-', '*', '=', '<', '>', '<=', '<>', '&'])
    left = rng.randint(0, nops - 1)
    return F.binop(op, rand_tree(rng, left, env, counter), rand_tree(rng, nops - 1 - left, env, counter))


def observe(lib, cases):
    obs = []
    for c in cases:
        lv = leaves(c['ast'], [])
        h = F.Harnessed(lib, c['env'])
        texts = [text_of(c[m], lv) for m in ('min', 'full', 'red')]
        outs = [outcome(h.p.parse(t)) for t in texts]
        obs.append({'id': len(obs) + 1, 'ast': c['ast'], 'env': c['env'], 'outs': outs, 'formulas': texts,
                    'in': texts[0]})
    return obs


def render_by_spec(run, trees):
    """Min/Full/Red token renderings of externally generated trees, computed by XLExpr in TLC."""
    tf = os.path.join(core.scratch(), 'c04_render_in.ndjson')
    of = os.path.join(core.scratch(), 'c04_render_out.ndjson')
    if os.path.exists(of):
        os.remove(of)
    with open(tf, 'w') as f:
        for i, t in enumerate(trees, 1):
            f.write(json.dumps({'id': i, 'ast': t['ast']}) + '\n')
    r = core.run_tlc('Render_C04.tla', 'Render_C04.cfg', env={'TRACE_FILE': tf, 'CASE_FILE': of})
    run.add_tlc('Render_C04', r)
    got = {}
    for c in core.read_cases(of):
        got[c['id']] = c
    out = []
    for i, t in enumerate(trees, 1):
        g = got.get(i)
        if g is None or not g['rt']:
            raise core.MachineryError('specification round trip failed for a generated tree: %r' % (t['ast'],))
        out.append({'ast': t['ast'], 'env': t['env'], 'min': g['min'], 'full': g['full'], 'red': g['red']})
    return out


def main(tier, replay=None):
    run = core.Run('C04', tier, keep_replays=bool(replay))
    values.TOL[0] = 1e-12    # several float operations per formula: rounding accumulates beyond 4 ulp
    lib = core.load_library()
    names, bconst = core.builtins_constant()
    consts = {'Builtins': bconst}
    run.rule = ('one observation = one expression tree evaluated through its minimal, full and redundant parenthesisations; '
                'distinct by minimal rendering; non-trivial = at least two operators')
    run.assumptions = ['a comparison operand of another operator is always parenthesised; & and + - * / are never adjacent '
                       'without parentheses (the property does not rank them)',
                       'float results are accepted within 1e-12 (relative, at least absolute) of the exact rational; exact values whose '
                       'denominator exceeds 100000 are left unspecified',
                       '& of non-integers and logicals has no specified text, there only equality of the renderings is required']
    if replay:
        c = json.load(open(replay))['case']
        h = F.Harnessed(lib, c['env'])
        obs = [{'id': 1, 'ast': c['ast'], 'env': c['env'], 'formulas': c['formulas'], 'in': c['formulas'][0],
                'outs': [outcome(h.p.parse(t)) for t in c['formulas']]}]
        v = core.validate_obs(run, 'Trace_C04', obs, 'replay', consts)
        core.tally(run, obs, v, 'c04', key=lambda o: o['in'])
        return run.finish()
    quick = tier == 'quick'
    cf = os.path.join(core.scratch(), 'c04_cases.ndjson')
    r = core.run_tlc('MC_C04.tla', 'MC_C04_quick.cfg' if quick else 'MC_C04_thorough.cfg', env={'CASE_FILE': cf},
                     timeout=3000)
    run.add_tlc('MC_C04', r)
    cases = core.read_cases(cf)
    for c in cases:
        c['env'] = base_env()
    run.extra['tlc_trees'] = len(cases)
    rng = random.Random(run.seed)
    rnd = []
    for _ in range(2500 if quick else 60000):
        env = base_env()
        rnd.append({'ast': rand_tree(rng, rng.choice([2, 3, 4, 5, 6, 8, 12, 18, 25]), env, [0]), 'env': env})
    CH = 20000
    for k in range(0, len(rnd), CH):
        cases += render_by_spec(run, rnd[k:k + CH])
    obs = observe(lib, cases)
    for k in range(0, len(obs), CH):
        part = obs[k:k + CH]
        v = core.validate_obs(run, 'Trace_C04', part, 'p%d' % (k // CH), consts)
        core.tally(run, part, v, 'c04', key=lambda o: o['in'],
                   nontrivial=lambda o: sum(o['in'].count(x) for x in '+-*/=<>&') >= 2)
    run.exhaustive = True
    run.samples = [{'formulas': o['formulas'], 'outs': [x['res'] for x in o['outs']]} for o in (obs[100], obs[-1])]
    return run.finish()
