# -*- coding: utf-8 -*-
"""C04 - precedence, associativity, parentheses.  MC_C04: every tree with <= MaxOps operators, the
shift-reduce machine accepts each rendering with exactly that tree (TLC, stepwise) and the tree
with its Min/Full/Red token renderings is exported.  Random deep trees are rendered by the
specification too (Render_C04).  The real parser evaluates the three renderings; Trace_C04 requires
each to equal the exact value of the tree (XLEval) and all three to be identical."""
import json
import os
import random
import shutil

from . import core
from . import formula as F
from . import lrtab
from . import values
from .values import enc, outcome


def base_env():
    env = F.empty_env()
    env['vars'] = {'vc': enc(3), 'vk': enc(11)}
    env['cellsets'] = [{'key': F.cps('C5'), 'vals': [enc(5)]}, {'key': F.cps('A1'), 'vals': [enc(13)]}]
    return env


def leaves(n, out):
    if n['k'] == 'bin':
        leaves(n['l'], out)
        leaves(n['r'], out)
    elif n['k'] == 'neg':
        leaves(n['e'], out)
    else:
        out.append(n)
    return out


def text_of(tokens, lv, ws=None):
    parts = []
    for t in tokens:
        if t.startswith('L') and t[1:].isdigit():
            parts.append(F.render(lv[int(t[1:]) - 1]))
        else:
            parts.append(t)
    if ws is None:
        return ''.join(parts)
    return ''.join(p + ws() for p in parts)


PRIMES = [2, 3, 5, 7, 11, 13, 17, 19, 23, 29, 31, 37, 41, 43, 47, 53, 59, 61, 67, 71, 73, 79, 83, 89, 97, 101]


def rand_leaf(rng, i, env):
    v = PRIMES[i % len(PRIMES)]
    k = rng.randrange(8)
    if k == 7:
        # a host function that evaluates another formula on the same parser each time it is called (a named formula)
        env['funcs']['NAMED'] = {'mode': 'arg', 'v': {'t': 'blank'}, 'i': 1}
        return F.call('NAMED', F.num(str(v)))
    if k == 6:
        # names that mean something to other notations (HTML entities, regex classes) - here they are plain cells and variables
        if rng.random() < 0.5:
            label = rng.choice(['GT', 'LT', 'AMP', 'gt', 'Lt', 'NOT', 'OR']) + str(rng.randint(1, 9))
            env['cellsets'].append({'key': F.cps(label.upper()), 'vals': [enc(v)]})
            return F.cell(label)
        name = rng.choice(['lt', 'gt', 'amp', 'quot', 'copy', 'nbsp', 'le', 'ge', 'ne', 'not_', 'and_'])
        env['vars'][name] = enc(v)
        return F.var(name)
    if k == 0:
        return F.num(str(v))
    if k == 1:
        return F.num(rng.choice(['0.5', '0.25', '1.5', '2.75', '.5', '0.125']))
    if k == 2:
        name = 'v_%d' % i
        env['vars'][name] = enc(v)
        return F.var(name)
    if k == 3:
        label = rng.choice(['', '$']) + 'Q' + rng.choice(['', '$']) + str(100 + i)
        env['cellsets'].append({'key': F.cps('Q%d' % (100 + i)), 'vals': [enc(v)]})
        return F.cell(label)
    if k == 4:
        return F.call('SUM', F.num(str(v)), F.num(rng.choice(['1', '100', '234', '1000', '0.5'])))
    return F.call(rng.choice(['ABS', 'SUM']), F.neg(F.num(str(v))))


def rand_tree(rng, nops, env, counter):
    if nops == 0:
        counter[0] += 1
        return rand_leaf(rng, counter[0], env)
    r = rng.random()
    if r < 0.12:
        return F.neg(rand_tree(rng, nops - 1, env, counter))
    op = rng.choice(['+', '-', '*', '/', '+', '-', '*', '=', '<', '>', '<=', '<>', '&'])
    left = rng.randint(0, nops - 1)
    return F.binop(op, rand_tree(rng, left, env, counter), rand_tree(rng, nops - 1 - left, env, counter))


UWS = ['', '', ' ', '\u00a0', '\u3000', '\u2009', '\u202f', '\x85', '\t', '\n']


def named_hook(hh, args):
    saved, hh.hooks = hh.hooks, {}
    try:
        hh.parse('1+2*3')
    finally:
        hh.hooks = saved


def observe(lib, cases):
    obs = []
    for c in cases:
        lv = leaves(c['ast'], [])
        h = F.Harnessed(lib, c['env'])
        h.hooks = {'call:NAMED': named_hook}
        texts = [text_of(c[m], lv) for m in ('min', 'full', 'red')]
        if len(obs) % 7 == 3:      # blanks of every kind between the tokens of each rendering
            wr = random.Random(len(obs))
            texts = [text_of(c[m], lv, lambda: wr.choice(UWS)) for m in ('min', 'full', 'red')]
        if len(obs) % 5 == 4:
            # a moment ago the host's cells held other values (the parser is not told when a cell changes), and its listeners
            # evaluate a formula of their own on the same parser while they answer: what is judged is the evaluation with the
            # values of now
            import copy
            real = h.env
            other = copy.deepcopy(real)
            for sset in other['cellsets']:
                sset['vals'] = [enc(977)]
            h.env = other
            h.hooks.update({'cell:post': named_hook, 'var:post': named_hook})
            for t in texts:
                h.p.parse(t)
            h.env = real
        outs = [outcome(h.p.parse(t)) for t in texts]
        if len(obs) % 3 == 2:      # the same three texts once more on the same parser: what is judged is the second evaluation
            outs = [outcome(h.p.parse(t)) for t in texts]
        obs.append({'id': len(obs) + 1, 'ast': c['ast'], 'env': c['env'], 'outs': outs, 'formulas': texts,
                    'in': texts[0]})
    return obs


def render_by_spec(run, trees):
    """Min/Full/Red token renderings of externally generated trees, computed by XLExpr in TLC."""
    tf = os.path.join(core.scratch(), 'c04_render_in.ndjson')
    of = os.path.join(core.scratch(), 'c04_render_out.ndjson')
    if os.path.exists(of):
        os.remove(of)
    with open(tf, 'w') as f:
        for i, t in enumerate(trees, 1):
            f.write(json.dumps({'id': i, 'ast': t['ast']}) + '\n')
    r = core.run_tlc('Render_C04.tla', 'Render_C04.cfg', env={'TRACE_FILE': tf, 'CASE_FILE': of})
    run.add_tlc('Render_C04', r)
    got = {}
    for c in core.read_cases(of):
        got[c['id']] = c
    out = []
    for i, t in enumerate(trees, 1):
        g = got.get(i)
        if g is None or not g['rt']:
            raise core.MachineryError('specification round trip failed for a generated tree: %r' % (t['ast'],))
        out.append({'ast': t['ast'], 'env': t['env'], 'min': g['min'], 'full': g['full'], 'red': g['red']})
    return out


# ---------------------------------------------------------------- the LR automaton of the live parser
LR_QUICK = ['MaxToks = 7', 'Ops = {"+", "-", "*", "/", "&", "=", "<>", "<", ">", "<=", ">="}',
            'LeafForms = {"n"}', 'MaxArgs = 0']
LR_THOROUGH = [['MaxToks = 9', 'Ops = {"+", "-", "*", "/", "&", "=", "<>", "<", ">="}', 'LeafForms = {"n"}', 'MaxArgs = 0'],
               ['MaxToks = 8', 'Ops = {"+", "-", "*", "/", "&", "=", "<"}', 'LeafForms = {"n", "p", "c", "d", "v", "r"}',
                'MaxArgs = 2']]


def lr_tree_to_ast(t, rng_vals, env, logical_at=None):
    """A tree printed by MC_LR -> formula tree with concrete leaves (the i-th leaf takes the i-th value)."""
    k = t['k']
    if k == 'leaf':
        i = len(rng_vals['used'])
        v = rng_vals['vals'][i % len(rng_vals['vals'])]
        rng_vals['used'].append(v)
        if logical_at is not None and i == logical_at:
            name = 'lg_%d' % i
            env['vars'][name] = enc(True)
            return F.var(name)
        f = t['f']
        if f == 'n':
            return F.num(str(v))
        if f == 'd':
            return F.num('%d.5' % v)
        if f == 'f':
            return F.num('.5')
        if f == 'p':
            return F.num('%d%%' % v)
        if f == 'c':
            return F.num('%d^2' % v)
        if f == 'v':
            name = 'lv_%d' % i
            env['vars'][name] = enc(v)
            return F.var(name)
        if f == 'r':
            env['cellsets'].append({'key': F.cps('R%d' % (200 + i)), 'vals': [enc(v)]})
            return F.cell('R%d' % (200 + i))
        raise core.MachineryError('leaf form %r has no concrete spelling' % f)
    if k == 'neg':
        return F.neg(lr_tree_to_ast(t['e'], rng_vals, env, logical_at))
    if k == 'paren':
        return F.paren(lr_tree_to_ast(t['e'], rng_vals, env, logical_at))
    if k == 'bin':
        l = lr_tree_to_ast(t['l'], rng_vals, env, logical_at)
        return F.binop(t['op'], l, lr_tree_to_ast(t['r'], rng_vals, env, logical_at))
    if k == 'call':
        return F.call('SUM', *[lr_tree_to_ast(a, rng_vals, env, logical_at) for a in t['args']])
    raise core.MachineryError('tree node %r has no concrete spelling' % k)


def lr_model(run, lib, quick, consts):
    """MC_LR on the tables of the live parser.  A disagreement between the automaton and the declarative
    reading is only reported when the real parser, given the rendering with concrete leaves, returns
    something else than the exact value of the tree (Trace_C04 decides)."""
    try:
        tabs = lrtab.extract(lib)
    except lrtab.NoTables as e:
        run.extra['lr_model'] = 'skipped: %s' % e
        return
    d = os.path.join(core.scratch(), 'lr_model')
    os.makedirs(d, exist_ok=True)
    with open(os.path.join(d, 'LRTabGen.tla'), 'w') as f:
        f.write(lrtab.module(tabs))
    for m in ('MC_LR.tla', 'XLLR.tla'):
        shutil.copy(os.path.join(core.SPEC, m), d)
    dis = []
    states = 0
    for n, cs in enumerate([LR_QUICK] if quick else LR_THOROUGH):
        cfg = os.path.join(d, 'MC_LR_%d.cfg' % n)
        with open(cfg, 'w') as f:
            f.write('SPECIFICATION Spec\nCONSTANTS\n' + ''.join('  %s\n' % c for c in cs) + 'INVARIANT Check\nCHECK_DEADLOCK FALSE\n')
        r = core.run_tlc('MC_LR.tla', cfg, cwd=d, timeout=3000)
        run.add_tlc('MC_LR[%d]' % n, r)
        dis += core.printed_values(r.out, 'LRDIS')
    run.extra['lr_model'] = {'lr_states': len(tabs['action']), 'productions': len(tabs['productions']),
                             'configurations': [LR_QUICK] if quick else LR_THOROUGH,
                             'disagreements_with_declarative_reading': len(dis)}
    if not dis:
        return
    # confirm on the real parser: several leaf assignments per disagreement (comparisons of comparisons only show with logicals)
    obs = []
    seen = set()
    for v in dis[:400]:
        toks, tree = v[1], v[2]
        if tuple(toks) in seen:
            continue
        seen.add(tuple(toks))
        nl = sum(1 for t in toks if t in ('NUMBER', 'VARIABLE', 'RELATIVE_CELL')) or 1
        for vals, lg in ((PRIMES, None), (PRIMES[::-1][:nl][::1], None), (PRIMES, 0), (PRIMES, nl - 1), ([3, 2, 5, 1, 7, 4, 9, 6, 8], None)):
            env = base_env()
            try:
                ast = lr_tree_to_ast(tree, {'vals': list(vals), 'used': []}, env, lg)
            except core.MachineryError:
                continue
            text = F.render(ast)
            h = F.Harnessed(lib, env)
            out = outcome(h.p.parse(text))
            obs.append({'id': len(obs) + 1, 'ast': ast, 'env': env, 'formulas': [text] * 3, 'in': text, 'outs': [out] * 3,
                        'lr': {'tokens': toks}})
    v = core.validate_obs(run, 'Trace_C04', obs, 'lr', consts)
    core.tally(run, obs, v, 'c04-lr', key=lambda o: o['in'])


def main(tier, replay=None):
    run = core.Run('C04', tier, keep_replays=bool(replay))
    values.TOL[0] = 1e-12    # several float operations per formula: rounding accumulates beyond 4 ulp
    lib = core.load_library()
    names, bconst = core.builtins_constant()
    consts = {'Builtins': bconst}
    run.rule = ('one observation = one expression tree evaluated through its minimal, full and redundant parenthesisations; '
                'distinct by minimal rendering; non-trivial = at least two operators')
    run.assumptions = ['comparison operators form one level and chain left to right; & and + - * / are never adjacent '
                       'without parentheses (the property does not rank them)',
                       'float results are accepted within 1e-12 (relative, at least absolute) of the exact rational; exact values whose '
                       'denominator exceeds 100000 are left unspecified',
                       '& of non-integers and logicals has no specified text, there only equality of the renderings is required']
    if replay:
        c = json.load(open(replay))['case']
        h = F.Harnessed(lib, c['env'])
        h.hooks = {'call:NAMED': named_hook}
        obs = [{'id': 1, 'ast': c['ast'], 'env': c['env'], 'formulas': c['formulas'], 'in': c['formulas'][0],
                'outs': [outcome(h.p.parse(t)) for t in c['formulas']]}]
        v = core.validate_obs(run, 'Trace_C04', obs, 'replay', consts)
        core.tally(run, obs, v, 'c04', key=lambda o: o['in'])
        return run.finish()
    quick = tier == 'quick'
    lr_model(run, lib, quick, consts)
    cf = os.path.join(core.scratch(), 'c04_cases.ndjson')
    r = core.run_tlc('MC_C04.tla', 'MC_C04_quick.cfg' if quick else 'MC_C04_thorough.cfg', env={'CASE_FILE': cf},
                     timeout=3000)
    run.add_tlc('MC_C04', r)
    cases = core.read_cases(cf)
    for c in cases:
        c['env'] = base_env()
    run.extra['tlc_trees'] = len(cases)
    rng = random.Random(run.seed)
    rnd = []
    for _ in range(2500 if quick else 60000):
        env = base_env()
        rnd.append({'ast': rand_tree(rng, rng.choice([2, 3, 4, 5, 6, 8, 12, 18, 25]), env, [0]), 'env': env})
    # deep nesting: left- and right-leaning chains (their full resp. minimal rendering nests one parenthesis
    # per operator) and a leaf under many unary minus signs
    for depth in ((70, 100) if quick else (70, 100, 200, 240)):     # (the JSON reader of the trace files nests at most 255 levels)
        for side in ('l', 'r'):
            for ops in (['-', '+'], ['-'], ['/', '*'], ['&']):
                t = F.num('1')
                for i in range(depth):
                    leaf = F.num(str(i % 7 + 2))
                    op = ops[i % len(ops)]
                    t = F.binop(op, t, leaf) if side == 'l' else F.binop(op, leaf, t)
                rnd.append({'ast': t, 'env': base_env()})
        t = F.num('5')
        for i in range(depth):
            t = F.neg(t)
        rnd.append({'ast': t, 'env': base_env()})
    CH = 20000
    for k in range(0, len(rnd), CH):
        cases += render_by_spec(run, rnd[k:k + CH])
    obs = observe(lib, cases)
    for k in range(0, len(obs), CH):
        part = obs[k:k + CH]
        v = core.validate_obs(run, 'Trace_C04', part, 'p%d' % (k // CH), consts)
        core.tally(run, part, v, 'c04', key=lambda o: o['in'],
                   nontrivial=lambda o: sum(o['in'].count(x) for x in '+-*/=<>&') >= 2)
    # literals of 16-25 digits under - + and the comparisons, bare and parenthesised: the exact value of the tree (Trace_Big)
    from .c06 import run_big, signed
    big = []
    bp = lib.Parser()
    for _ in range(200 if quick else 6000):
        a = rng.randint(10 ** 15, 10 ** 25)
        b = rng.choice([a - 1, a + 1, a, a - rng.randint(1, 1000), rng.randint(10 ** 15, 10 ** 25)])
        op = rng.choice(['-', '+', '-', '>', '=', '<', '>=', '<>'])
        if op in '+-':
            big.append(run_big(lib, op, a, b, False, False, 'lit'))
            continue
        for text in ('%d%s%d' % (a, op, b), '(%d)%s(%d)' % (a, op, b)):
            r = bp.parse(text)
            truth = 'TRUE' if r['error'] is None and r['result'] is True else 'FALSE' if r['error'] is None and r['result'] is False else 'other'
            big.append({'kind': 'bigcmp', 'op': op, 'a': signed(a), 'b': signed(b), 'k': 0, 'truth': truth, 'formula': text,
                        'out': {'int': False, 'neg': False, 'ds': [48]}, 'out2': {'int': False, 'neg': False, 'ds': [48]},
                        'in': {'op': op, 'a': str(a), 'b': str(b), 'formula': text}})
    # exactly representable operands that cancel down to a half: (n+0.5) - n, scaled by ten so that the value is a whole number
    for _ in range(60 if quick else 2000):
        n = rng.randint(2 ** 49, 2 ** 52 - 2)
        for text in ('(%d.5-%d)*10' % (n, n), '((%d.5)-(%d))*10' % (n, n), '(%d-%d.5)*10' % (n + 1, n), '(%d.5+(0-%d))*10' % (n, n)):
            o = run_big(lib, '-', n * 10 + 5, n * 10, False, False, 'lit')
            from .c06 import big_out
            o['out'] = o['out2'] = big_out(bp.parse(text))
            o['formula'] = text
            o['in'] = dict(o['in'], formula=text)
            big.append(o)
    for n, o in enumerate(big, 1):
        o['id'] = n
    v = core.validate_obs(run, 'Trace_Big', big, 'big')
    core.tally(run, big, v, 'c04-big', key=lambda o: o['formula'] + json.dumps(o['in'], sort_keys=True))
    run.extra['long_literal_trees'] = len(big)
    run.exhaustive = True
    run.samples = [{'formulas': o['formulas'], 'outs': [x['res'] for x in o['outs']]} for o in (obs[100], obs[-1])]
    return run.finish()
