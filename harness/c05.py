# -*- coding: utf-8 -*-
"""C05 - lexical conventions.  MC_C05 enumerates slot patterns, literal forms, array literals and
whitespace vectors and checks the slot/literal/array laws on XLEval; each case is spelled in every
separator style / with the whitespace vector / in several letter cases and evaluated on the real
parser with a recording custom function; Trace_C05 requires all spellings to agree and, when
accepted, to match XLEval.  C2S: random trees with random whitespace, quoted literals over Unicode."""
import copy
import json
import os
import random

from . import core
from . import formula as F
from . import values
from .values import enc

WS = ['', ' ', '  ', '\t', '\n', '\r\n', ' \t ', '\u00a0', '\u3000', '\u2009', '\u202f', '\x85', '\x1f', '\u2028', '\x0c']


def base_env():
    env = F.empty_env()
    env['vars'] = {'va': enc(3)}
    env['funcs'] = {'REC': {'mode': 'const', 'v': enc(7), 'i': 0}}
    env['cellsets'] = [{'key': F.cps('A1'), 'vals': [enc(5)]}]
    return env


def set_sep(n, s, inner=None):
    n = copy.deepcopy(n)

    def walk(x, top=True):
        if isinstance(x, dict):
            if x.get('k') in ('call', 'arr'):
                if x.get('rows'):
                    x['sep'] = ';'
                    for it in x['items']:
                        it['sep'] = inner or ','
                        it['norender'] = True
                elif not x.get('norender'):
                    x['sep'] = s
            for v in x.values():
                walk(v, False)
        elif isinstance(x, list):
            for v in x:
                walk(v, False)
    walk(n)
    return n


def render(n, ws=None):
    """like F.render, plus two-row array literals {a,b;c,d}"""
    if n.get('k') == 'arr' and n.get('rows'):
        w = ws or (lambda: '')
        rows = []
        for r in n['items']:
            s = r.get('sep', ',')
            rows.append((w() + s + w()).join(render(a, ws) for a in r['items']))
        return '{' + w() + (w() + ';' + w()).join(rows) + w() + '}'
    if n.get('k') in ('bin', 'neg', 'paren', 'call', 'arr'):
        # re-implement composition so nested row arrays are reached
        k = n['k']
        w = ws or (lambda: '')
        if k == 'bin':
            return render(n['l'], ws) + w() + n['op'] + w() + render(n['r'], ws)
        if k == 'neg':
            return '-' + w() + render(n['e'], ws)
        if k == 'paren':
            return '(' + w() + render(n['e'], ws) + w() + ')'
        s = n.get('sep', ',')
        items = n['args'] if k == 'call' else n['items']
        body = (w() + s + w()).join(render(a, ws) for a in items)
        return (n['f'] + '(' if k == 'call' else '{') + w() + body + w() + (')' if k == 'call' else '}')
    return F.render(n, ws=ws)


def strip_hints(n):
    n = copy.deepcopy(n)

    def walk(x):
        if isinstance(x, dict):
            for k in ('sep', 'rows', 'norender'):
                x.pop(k, None)
            for v in x.values():
                walk(v)
        elif isinstance(x, list):
            for v in x:
                walk(v)
    walk(n)
    return n


def whole(r):
    """1.0 and 1 spell the same number: how a whole number is held is not part of what a literal spells"""
    return r[:-2] if r.endswith('.0') else r


def run_variants(lib, ast, env, texts, kind, must, want=None, shared=None):
    """shared: a long-lived Harnessed of the same environment on which all texts (of this and of earlier observations)
    are evaluated - formulas that differ only inside a quoted literal must not be mistaken for one another"""
    vs = []
    for t in texts:
        h = shared or F.Harnessed(lib, env)
        o = h.parse(t, again=len(t) % 3 == 2)
        o['text'] = t
        if want is not None:     # the raw result as Python prints it (for the exactness of literals)
            r = lib.Parser().parse(t)
            o['repr'] = whole(repr(r['result'])) if r['error'] is None else 'error ' + str(r['error'])
        vs.append(o)
    out = {'kind': kind, 'ast': strip_hints(ast), 'env': env, 'must': must, 'vars': vs, 'in': texts}
    from .c10 import array_meets_array
    try:
        # where an operator may combine two arrays the value is C06's subject (and its recorded finding about nested one-element
        # arrays): here the spellings must still agree with each other, and the events and calls with the specification
        out['novalue'] = bool(array_meets_array(out['ast'], env))
    except Exception:
        out['novalue'] = False
    if want is not None:
        out['want'] = whole(want)
    return out


def spelled(lex):
    """the number a literal spells, converted by Python's own correctly rounded decimal reader"""
    if lex.endswith('%'):
        return repr(int(lex[:-1]) / 100)
    if '^' in lex:
        b, e = lex.split('^')
        return repr(int(b) ** int(e))
    if '.' in lex:
        return repr(float(lex if not lex.startswith('.') else '0' + lex))
    return repr(int(lex))


def ws_from(vec):
    it = iter(vec)
    return lambda: WS[next(it, 0)]


def case_variants(rng, label):
    out = [label]
    for _ in range(3):
        out.append(''.join(rng.choice([c.lower(), c.upper()]) for c in label))
    return out


def rand_string(rng, q):
    pool = 'ab Z09_-+*/=<>&(),;:.#!?%^{}é漢語ñ\t\n\r\x0b\u2028\u00a0\u201c\u201d\u2018\u2019\u00ab`' + ("'" if q == '"' else '"')
    if rng.random() < 0.06:       # text spelled like an error code, a logical, a number, a cell, a formula: still that text
        return rng.choice(['#N/A', '#REF!', '#DIV/0!', '#VALUE!', '#NAME?', '#NUM!', '#NULL!', '#ERROR!', 'TRUE', 'FALSE', '12', '1e3', 'A1',
                           '=1+1', 'SUM(1,2)', 'NULL', ' ', '-', '%'])
    n = rng.randint(0, 12)
    s = ''.join(rng.choice(pool) for _ in range(n))
    return s


def main(tier, replay=None):
    run = core.Run('C05', tier, keep_replays=bool(replay))
    lib = core.load_library()
    values.TOL[0] = 1e-12
    names, bconst = core.builtins_constant()
    consts = {'Builtins': bconst}
    run.rule = ('one observation = one formula tree spelled in several ways (separator style, whitespace at token boundaries, '
                'letter case of references) and evaluated with a recording custom function; distinct by first spelling; '
                'non-trivial = more than one spelling or a literal form other than plain digits')
    run.assumptions = ['whitespace only at token boundaries produced by the renderer (never inside a literal, a two-character '
                       'operator or between a function name and its parenthesis)',
                       'numeric literals up to 9 digits (TLC integers); non-integers within 1e-12',
                       'quoted-literal contents exclude the delimiting quote; a content ending in a backslash is exercised '
                       'only as the last token of the formula (see known findings / DESIGN C05)']
    if replay:
        c = json.load(open(replay))['case']
        o = run_variants(lib, c['ast'], c['env'], c['in'], c['kind'], c['must'])
        o['id'] = 1
        v = core.validate_obs(run, 'Trace_C05', [o], 'replay', consts)
        core.tally(run, [o], v, 'c05', key=lambda o: o['in'][0])
        return run.finish()
    quick = tier == 'quick'
    cf = os.path.join(core.scratch(), 'c05_cases.ndjson')
    r = core.run_tlc('MC_C05.tla', 'MC_C05_quick.cfg' if quick else 'MC_C05_thorough.cfg', env={'CASE_FILE': cf})
    run.add_tlc('MC_C05', r)
    cases = core.read_cases(cf)
    run.extra['tlc_cases'] = len(cases)
    rng = random.Random(run.seed)
    obs = []
    seen = set()
    for c in cases:
        ast, kind = c['ast'], c['kind']
        env = base_env()
        key = kind + json.dumps(strip_hints(ast), sort_keys=True) + json.dumps(c['layout'])
        if key in seen:
            continue
        seen.add(key)
        if kind == 'slots':
            texts = [render(set_sep(ast, s)) for s in (',', ';', '\\')]
            obs.append(run_variants(lib, ast, env, texts, kind, False))
        elif kind == 'arr':
            if ast.get('rows'):
                texts = [render(set_sep(ast, ';', ',')), render(set_sep(ast, ';', '\\'))]
            else:
                texts = [render(set_sep(ast, s)) for s in (',', ';', '\\')]
            obs.append(run_variants(lib, ast, env, texts, kind, False))
        elif kind == 'lit':
            t = render(ast)
            texts = [t, ' ' + t, t + '\t', '(' + t + ')', '\n( ' + t + ' )']
            obs.append(run_variants(lib, ast, env, texts, kind, True, want=spelled(t)))
        elif kind == 'layout':
            texts = [render(ast), render(ast, ws_from(c['layout'])), render(ast, ws_from(list(reversed(c['layout']))))]
            for s in (';', '\\'):
                texts.append(render(set_sep(ast, s), ws_from(c['layout'])))
            obs.append(run_variants(lib, ast, env, texts, kind, True))
    # C2S: random decimal literals, exactly the number they spell
    for _ in range(2500 if quick else 60000):
        ip = str(rng.randint(0, rng.choice([9, 99, 9999]))) if rng.random() < 0.85 else ''
        fp = ''.join(rng.choice('0123456789') for _ in range(rng.randint(1, 8 - min(len(ip), 4))))
        lex = rng.choice([ip + '.' + fp, ip + '.' + fp, (ip or '7') + '%', str(rng.randint(2, 9)) + '^' + str(rng.randint(0, 9)), ip or '0'])
        node = F.num(lex)
        obs.append(run_variants(lib, node, base_env(), [lex, '(' + lex + ')'], 'lit', True, want=spelled(lex)))
    # long digit strings and large powers spell integers beyond the doubles: still exactly the number they spell
    for _ in range(400 if quick else 8000):
        k = rng.random()
        if k < 0.4:
            lex = str(rng.randint(1, 9)) + ''.join(rng.choice('0123456789') for _ in range(rng.randint(9, 40)))
        elif k < 0.75:
            lex = str(rng.choice([2, 3, 5, 6, 7, 9, 10, 11, 12, 15, 17, 99, rng.randint(2, 999)])) + '^' + str(rng.randint(10, 60))
        elif k < 0.9:     # large exponents, results of up to 4200 digits (what Python still prints)
            import math as _m
            b = rng.choice([2, 2, 2, 3, 5, 10, 7, rng.randint(2, 99)])
            emax = int(4200 / _m.log10(b))
            lex = str(b) + '^' + str(rng.choice([emax, emax - 1, rng.randint(61, emax), rng.randint(emax // 2, emax), 10001 if b == 2 else emax // 3]))
        else:
            lex = str(rng.randint(10 ** 9, 10 ** 18)) + '%'
        obs.append(run_variants(lib, F.num(lex), base_env(), [lex, '(' + lex + ')'], 'lit', True, want=spelled(lex)))
    # C2S: quoted literals over Unicode, both delimiters
    longlived = F.Harnessed(lib, base_env())
    prev = None
    for i in range(1500 if quick else 40000):
        q = rng.choice(['"', "'"])
        s = rand_string(rng, q)
        if i % 4 == 1 and prev:
            # a sibling of the previous literal: the same text with other white space inside the quotes
            q, s = prev
            s = s.replace(' ', '  ', 1) if ' ' in s else s.replace('\t', ' ') if '\t' in s else s + ' '
        if s.endswith('\\'):
            s += 'x'
        prev = (q, s)
        node = F.string(s, q)
        ast = rng.choice([node, F.call('REC', node), F.binop('&', node, F.string(rand_string(rng, q).replace('\\', '/'), q)),
                          F.binop('=', node, node)])
        t = render(ast)
        texts = [t, render(ast, lambda: rng.choice(WS))]
        obs.append(run_variants(lib, ast, base_env(), texts, 'str', True, shared=longlived if i % 4 in (0, 1) else None))
    # text arguments that are, or contain, a separator character - in calls and arrays of every separator style
    for t1 in (',', ';', '\\\\'.replace('\\\\', chr(92)), ', ', 'a;b', ';;', ',,'):
        for shape in (lambda x: F.call('REC', F.num('1'), x), lambda x: F.call('REC', x, x, F.num('2')),
                      lambda x: F.call('REC', F.num('1'), dict(F.OMIT), x), lambda x: F.arr(x, F.num('1')),
                      lambda x: F.call('REC', x)):
            for q in ('"', "'"):
                ast = shape(F.string(t1, q))
                texts = [render(set_sep(ast, s)) for s in (',', ';', chr(92))]
                obs.append(run_variants(lib, ast, base_env(), texts, 'septext', False))
    # numbers of every length on both sides of a separator: a separator never becomes part of a number (1,234 / 1;5 / 12\\5)
    numlex = ['1', '12', '123', '1234', '0', '234', '100', '999', '000', '.5', '1.5', '12.25', '7%', '2^3', '5']
    for a in numlex:
        for b in numlex:
            for shape in (lambda x, y: F.call('REC', x, y), lambda x, y: F.arr(x, y), lambda x, y: F.call('REC', x, y, x),
                          lambda x, y: F.call('SUM', x, y)):
                if rng.random() < (0.35 if quick else 1.0):
                    ast = shape(F.num(a), F.num(b))
                    texts = [render(set_sep(ast, sp)) for sp in (',', ';', chr(92))]
                    obs.append(run_variants(lib, ast, base_env(), texts, 'numargs', True))
    # a content ending in a backslash, as the last token
    for s in ('a\\', '\\', 'x y\\'):
        for q in ('"', "'"):
            obs.append(run_variants(lib, F.string(s, q), base_env(), [render(F.string(s, q))], 'str', True))
    # the recorded finding's input class: backslash-terminated content followed by a same-delimiter literal
    for s1 in ('a\\', '\\', 'x y\\', 'é\\'):
        for q in ('"', "'"):
            for s2 in ('b', '', 'c d'):
                for mk in (lambda a, b: F.binop('&', a, b), lambda a, b: F.binop('=', a, b),
                           lambda a, b: F.call('REC', a, b)):
                    ast = mk(F.string(s1, q), F.string(s2, q))
                    t = render(ast)
                    obs.append(run_variants(lib, ast, base_env(), [t, render(ast, lambda: ' ')], 'strbs', True))
    # C2S: references in every letter case / whitespace in random trees
    from .c10 import rand_tree as ref_tree, rand_label
    for _ in range(1200 if quick else 30000):
        lab = rand_label(rng)
        env = base_env()
        env['cellsets'] = [{'key': F.cps(F.plain_key(lab)), 'vals': [enc(5)]}]
        ast = F.binop('+', F.cell(lab), F.num('1'))
        texts = [render(F.binop('+', F.cell(x), F.num('1'))) for x in case_variants(rng, lab)]
        obs.append(run_variants(lib, ast, env, texts, 'case', True))
    for _ in range(1500 if quick else 40000):
        ast = ref_tree(rng)
        env = base_env()
        env['vars'].update({'vb': enc('qq'), 'some_name': enc(2.5), 'x_1': enc(True)})
        texts = [render(ast)] + [render(set_sep(ast, rng.choice([',', ';', '\\'])), lambda: rng.choice(WS)) for _ in range(3)]
        obs.append(run_variants(lib, ast, env, texts, 'tree', False))
    for n, o in enumerate(obs, 1):
        o['id'] = n
    CH = 15000
    for k in range(0, len(obs), CH):
        part = obs[k:k + CH]
        v = core.validate_obs(run, 'Trace_C05', part, 'p%d' % (k // CH), consts)
        core.tally(run, part, v, 'c05', key=lambda o: o['kind'] + o['in'][0],
                   nontrivial=lambda o: len(o['in']) > 1)
    run.exhaustive = True
    run.samples = [{'kind': o['kind'], 'spellings': o['in'], 'out': o['vars'][0]['out']['res']} for o in (obs[5], obs[len(obs) // 3], obs[-1])]
    return run.finish()
