# -*- coding: utf-8 -*-
"""C03 - parser instances are isolated; evaluation is re-entrant and thread-independent.
MC: XLLexShare (mechanism model of token supply) checked against the isolation invariant for each
cursor ownership, nested and threaded, same and distinct parsers; its terminal behaviours are the
nesting placements and thread schedules that are enforced on the real code.  Every evaluation
(outer, nested, nested twice, each thread) is recorded and Trace_Hist requires it to have the
outcome/events/calls XLEval gives for the bindings of its own parser, and the outcome it has
when run alone."""
import collections
import json
import os
import random
import threading
import warnings

from . import core
from . import formula as F
from .values import enc

CHECKS = ['value', 'events', 'calls', 'solo']
BIND = {'p1': (3, 'one', 5, 7), 'p2': (30, 'two', 50, 70), 'p3': (300, 'three', 500, 700)}

N = F.num


def deep_calls(n, leaf):
    t = leaf
    for i in range(n):
        t = F.call('ABS', t) if i % 2 else F.call('SUM', t, N('0'))
    return t


def outer_pool():
    return [
        F.binop('+', F.call('NEST', F.var('va')), F.binop('*', F.cell('B2'), N('2'))),
        F.binop('&', F.call('SUM', F.cell('A1'), F.call('NEST', N('3'))), F.string('x')),
        F.call('IF', F.binop('>', F.var('va'), N('1')), F.call('NEST'), F.cell('B2')),
        F.binop('+', F.neg(F.paren(F.cell('a1'))), F.binop('*', F.var('va'), F.call('ABS', F.cell('$B$2')))),
        F.binop('=', F.rng('A1', 'B2'), F.call('NEST', F.var('vb'), F.cell('A1'))),
        F.arr(F.var('va'), F.call('NEST', N('1')), F.cell('B2')),
        F.binop('+', F.call('SUM', F.rng('A1', 'B2')), F.call('SUM', F.rng('$B$2', 'c3'))),
        F.binop('+', F.call('NEST', N('2')), deep_calls(70, F.cell('A1'))),       # 70 function calls deep, after the nesting point
        {'raw': 'SUM(1,NEST(2)'},            # parentheses left open at the end (whatever that evaluates to alone, it does nested too)
        {'raw': '(A1+NEST()'},
    ]


def inner_pool():
    return [
        F.binop('+', N('1'), F.binop('*', N('2'), N('3'))),
        F.binop('+', F.call('SUM', F.cell('A1'), F.cell('B2')), F.var('va')),
        F.binop('&', F.var('vb'), F.call('NEST', N('1'))),
        F.binop('+', N('1'), F.errlit('#REF!')),
        F.binop('+', F.var('unknown_name'), N('1')),
        F.call('IFERROR', F.binop('/', N('1'), N('0')), F.var('va')),
        {'raw': '1+*'},                      # a syntax error
        {'raw': ''},                         # the empty formula
        F.binop('+', F.call('SUM', F.rng('B2', 'A1')), F.call('COUNT', F.rng('A3', 'B2'))),   # corners of the outer ranges, written the other way round
        deep_calls(70, F.var('va')),
    ]


def env_for(p):
    va, vb, a1, b2 = BIND[p] if p in BIND else BIND['p%d' % (int(p[1:]) % 3 + 1)]    # q<n>: the crowd of parsers
    env = F.empty_env()
    env['vars'] = {'va': enc(va), 'vb': enc(vb)}
    env['funcs'] = {'NEST': {'mode': 'const', 'v': enc(11 * va), 'i': 0}}
    env['cellsets'] = [{'key': F.cps('A1'), 'vals': [enc(a1)]}, {'key': F.cps('B2'), 'vals': [enc(b2)]}]
    env['rangesets'] = [{'key': F.cps('A1:B2'), 'vals': [enc([[a1, 1], [2, b2]])]},
                        {'key': F.cps('B2:C3'), 'vals': [enc([[b2, 3], [4, va]])]}]
    return env


warnings.filterwarnings('ignore', message='host noise')


def noisy(*a):
    warnings.warn('host noise', RuntimeWarning)


class World(object):
    """three pre-built real parsers with distinct bindings, and the trace of what was done to them"""

    def __init__(self, lib, debug=False, names=('p1', 'p2', 'p3')):
        self.lib = lib
        self.h = {}
        self.ev = []
        self.lock = threading.Lock()
        for p in names:
            env = env_for(p)
            self.h[p] = F.Harnessed(lib, env, debug=debug)
            for name, v in sorted(env['vars'].items()):
                self.ev.append({'e': 'setvar', 'p': p, 'name': name, 'v': v})
            for name, c in sorted(env['funcs'].items()):
                self.ev.append({'e': 'setfn', 'p': p, 'name': name, 'c': c})
            self.ev.append({'e': 'listen', 'p': p, 'kind': 'cell', 'sets': env['cellsets']})
            self.ev.append({'e': 'listen', 'p': p, 'kind': 'range', 'sets': env['rangesets']})
            # a host whose listeners issue warnings (deprecations, data-quality notes): nobody's evaluation is disturbed by them
            self.h[p].p.on('callCellValue', noisy)
            self.h[p].p.on('callFunction', noisy)

    def parse(self, p, f, solo=None):
        text = f['raw'] if 'raw' in f else F.render(f)
        o = self.h[p].parse(text)
        o.update({'e': 'parse', 'p': p, 'formula': text})
        if 'raw' in f:
            o['ast'] = {'k': 'omit'}
            o['checks'] = ['solo']
        else:
            o['ast'] = f
            o['checks'] = list(CHECKS)
        o['solo'] = solo if solo is not None else o['out']
        if solo is None:
            o['checks'] = [c for c in o['checks'] if c != 'solo']
        with self.lock:
            self.ev.append(o)
        return o


def solo_outcome(lib, p, f, cache={}):
    key = (p, json.dumps(f, sort_keys=True))
    if key not in cache:
        w = World(lib) if p in BIND else World(lib, names=(p,))
        cache[key] = w.parse(p, f)['out']
    return cache[key]


# ------------------------------------------------------------------ nesting

def run_nested(lib, case):
    """outer formula on p1; at its j-th callback point a complete inner evaluation on the target
    parser; optionally the inner one nests a third evaluation at its first callback point."""
    w = World(lib)
    outer, inner, third = case['outer'], case['inner'], case.get('third')
    tp = case['target']
    tp3 = case.get('target3', 'p3')
    count = {'n': 0, 'in': 0}

    def inner_hook(h, payload):
        count['in'] += 1
        if third is not None and count['in'] == 1:
            saved = w.h[tp].hooks
            w.h[tp].hooks = {}
            if tp3 == tp or tp3 == 'p1':
                w.h['p1'].hooks, s1 = {}, w.h['p1'].hooks
            w.parse(tp3, third, solo_outcome(lib, tp3, third))
            if tp3 == tp or tp3 == 'p1':
                w.h['p1'].hooks = s1
            w.h[tp].hooks = saved

    def outer_hook(h, payload):
        if h is not w.h['p1'] or len(h.frames) != 2:
            return
        count['n'] += 1
        if count['n'] == case['at'] or case.get('every'):
            hooks1 = w.h['p1'].hooks
            w.h['p1'].hooks = {}
            w.h[tp].hooks = {k: inner_hook for k in ('cell', 'range', 'var', 'fn', 'call:NEST')}
            try:
                w.parse(tp, inner, solo_outcome(lib, tp, inner))
            finally:
                w.h[tp].hooks = {}
                w.h['p1'].hooks = hooks1

    if case.get('prefail'):
        # earlier evaluations on these parsers failed (syntax error, unknown name, error literal): nothing is left behind
        for pp in sorted({'p1', tp}):
            for bad in ({'raw': '1+*'}, F.binop('+', F.var('unknown_name'), N('1')), F.binop('+', N('1'), F.errlit('#REF!'))):
                w.parse(pp, bad, solo_outcome(lib, pp, bad))
    kinds = ('cell', 'range', 'var', 'fn')
    if case.get('post'):   # the listener first hands its values to the setter, then nests
        kinds = tuple(k + ':post' for k in kinds)
    w.h['p1'].hooks = {k: outer_hook for k in kinds + ('call:NEST',)}
    w.parse('p1', outer, solo_outcome(lib, 'p1', outer))
    w.h['p1'].hooks = {}
    # afterwards every parser still answers as when alone
    for p in ('p1', 'p2', 'p3'):
        probe = F.binop('+', F.var('va'), F.cell('A1'))
        w.parse(p, probe, solo_outcome(lib, p, probe))
    return w.ev, count['n']


def callback_points(lib, outer):
    w = World(lib)
    n = {'n': 0}

    def hook(h, payload):
        n['n'] += 1
    w.h['p1'].hooks = {k: hook for k in ('cell', 'range', 'var', 'fn', 'call:NEST')}
    w.parse('p1', outer)
    return n['n']


# ------------------------------------------------------------------ threads

class Baton(object):
    """Only the thread holding the baton runs; at every yield point (start of an evaluation, every
    token read, end of the evaluation) it is handed to the thread the schedule names next."""

    def __init__(self, schedule, tids):
        self.cv = threading.Condition()
        self.sched = collections.deque(schedule)
        self.running = None
        self.finished = set()
        self.tids = tids
        self.failed = None

    def _drop_finished(self):
        while self.sched and self.sched[0] in self.finished:
            self.sched.popleft()

    def yield_point(self, tid):
        with self.cv:
            if self.failed:          # the schedule could not be enforced: everybody runs freely to the end
                self.cv.notify_all()
                return
            if self.running == tid:
                self.running = None
                self.cv.notify_all()
            while True:
                self._drop_finished()
                if self.running is None and (not self.sched or self.sched[0] == tid):
                    if self.sched:
                        self.sched.popleft()
                    self.running = tid
                    return
                if not self.cv.wait(8):
                    self.failed = 'scheduler wait timed out in thread %s' % tid
                    self.running = tid
                    self.cv.notify_all()
                    return
                if self.failed:
                    return

    def finish(self, tid):
        with self.cv:
            self.finished.add(tid)
            if self.running == tid:
                self.running = None
            self.cv.notify_all()


_local = threading.local()
_patched = [False]


def patch_lexer():
    if _patched[0]:
        return
    import ply.lex
    orig = ply.lex.Lexer.token

    def token(self):
        b = getattr(_local, 'baton', None)
        if b is not None:
            b.yield_point(_local.tid)
        return orig(self)
    ply.lex.Lexer.token = token
    _patched[0] = True


def listener_yield(h, payload):
    """a scheduling point inside every listener (the thread may be preempted while the parser is delivering an event)"""
    b = getattr(_local, 'baton', None)
    if b is not None:
        b.yield_point(_local.tid)


def yield_in_listeners(w):
    for h in w.h.values():
        h.hooks = {k: listener_yield for k in ('cell', 'range', 'var', 'fn')}


class Blocked(Exception):
    pass


import sys as _sys
import time as _time
_T0 = _time.time()


def DBG(*a):
    if os.environ.get('VERIF_DEBUG'):
        _sys.stderr.write('[c03 %.0fs] %s\n' % (_time.time() - _T0, ' '.join(str(x) for x in a)))


STALLS = [0]      # schedules under which some thread could not proceed for 8 s, twice (never on a tree that holds the property)


BLOCKED = {'keys': ['error', 'result'], 'res': {'t': 'blank'}, 'err': '#DID-NOT-RETURN', 'errkind': 'str'}


def blocked_events(w, forms, solos):
    """the history of a run in which some evaluation never returned under the enforced interleaving"""
    done = {(e['p'], e['formula']) for e in w.ev if e['e'] == 'parse'}
    for (p, f), solo in zip(forms, solos):
        text = f['raw'] if 'raw' in f else F.render(f)
        if (p, text) not in done:
            w.ev.append({'e': 'parse', 'p': p, 'formula': text, 'ast': {'k': 'omit'}, 'out': BLOCKED, 'events': [], 'calls': [],
                         'solo': solo, 'checks': ['solo']})
    return w.ev


def count_token_reads(lib, p, f):
    """number of Lexer.token calls of a solo evaluation (yield points of the thread)"""
    import ply.lex
    patch_lexer()
    n = {'n': 0}

    class Counter(object):
        def yield_point(self, tid):
            n['n'] += 1
    _local.baton, _local.tid = Counter(), 0
    try:
        w = World(lib) if p in BIND else World(lib, names=(p,))
        yield_in_listeners(w)
        w.parse(p, f)
    finally:
        _local.baton = None
    return n['n']


def run_threads(lib, case, attempt=0):
    patch_lexer()
    w = World(lib)
    yield_in_listeners(w)
    forms = case['formulas']          # [(parser, formula), ...] one per thread
    baton = Baton(case['schedule'], list(range(1, len(forms) + 1)))
    solos = [solo_outcome(lib, p, f) for p, f in forms]

    def body(tid, p, f, solo):
        _local.baton, _local.tid = baton, tid
        try:
            baton.yield_point(tid)          # begin
            w.parse(p, f, solo)
            baton.yield_point(tid)          # end
        finally:
            _local.baton = None
            baton.finish(tid)

    ts = [threading.Thread(target=body, args=(i + 1, p, f, solos[i]), daemon=True) for i, (p, f) in enumerate(forms)]
    for t in ts:
        t.start()
    stuck = False
    for t in ts:
        t.join(25)
        stuck = stuck or t.is_alive()
    if stuck or baton.failed:
        # an evaluation that does not come back under this interleaving (it waits for something another thread holds) is a
        # violation, a stalled machine is not: the same schedule is tried once more before it counts
        if attempt == 0:
            return run_threads(lib, case, attempt=1)
        STALLS[0] += 1
        return blocked_events(w, forms, solos)
    return w.ev


# ------------------------------------------------------------------ a listener that hands an evaluation to another thread

def run_delegate(lib, case, attempt=0):
    """outer formula on p1; at its j-th callback point the listener (or custom function) has another thread evaluate a
    formula on another parser and waits for it - a host that serves cells from a worker pool"""
    w = World(lib)
    outer, inner, tp = case['outer'], case['inner'], case['target']
    count = {'n': 0}
    solo_in = solo_outcome(lib, tp, inner)
    state = {'blocked': False}

    def hook(h, payload):
        if h is not w.h['p1'] or len(h.frames) != 2:
            return
        count['n'] += 1
        if count['n'] == case['at']:
            t = threading.Thread(target=lambda: w.parse(tp, inner, solo_in), daemon=True)
            t.start()
            t.join(8)
            if t.is_alive():
                state['blocked'] = True

    kinds = ('cell', 'range', 'var', 'fn')
    if case.get('post'):
        kinds = tuple(k + ':post' for k in kinds)
    w.h['p1'].hooks = {k: hook for k in kinds + ('call:NEST',)}
    w.parse('p1', outer, solo_outcome(lib, 'p1', outer))
    w.h['p1'].hooks = {}
    if state['blocked']:
        if attempt == 0:
            return run_delegate(lib, case, attempt=1)
        # the listener waited 8 s for the other thread's evaluation, twice: a host that waits without a time limit never
        # gets its answer (whatever the worker does once the listener has given up)
        text = inner['raw'] if 'raw' in inner else F.render(inner)
        with w.lock:
            w.ev = [e for e in w.ev if not (e['e'] == 'parse' and e['p'] == tp and e['formula'] == text)]
        return blocked_events(w, [(tp, inner)], [solo_in])
    return w.ev


# ------------------------------------------------------------------ the first evaluations of a process, all at once

COLD = ['AVERAGE(4,5,6)', 'DEC2HEX(255)', 'YEAR(DATE(2020,2,3))', 'INDEX({1,2,3},2)', 'PV(0.05,10,-100)>0', 'LEN("abc")&UPPER("x")',
        'IF(ISNUMBER(va),SUM(va,1),0)', 'ROUND(2.567,2)', 'MATCH(2,{1,2,3},0)', 'MEDIAN(1,5,3)', 'COUNTIF({1,2,3},">1")', 'SIN(0)+va']


def run_cold(lib, case):
    """n threads in a fresh interpreter, each with its own parser, start evaluating at the same moment"""
    import subprocess
    n = case['n']
    forms = [[COLD[(i + j * case['step']) % len(COLD)] for j in range(3)] for i in range(n)]
    r = subprocess.run(['/venv/bin/python', os.path.join(core.VERIF, 'harness', 'c03_child.py'), core.lib_path(), core.VERIF,
                        json.dumps(forms)], stdout=subprocess.PIPE, stderr=subprocess.DEVNULL, universal_newlines=True, timeout=300)
    try:
        outs = json.loads(r.stdout.strip().splitlines()[-1])
    except Exception:
        raise core.MachineryError('C03 cold-start child produced no result (rc=%s)' % r.returncode)
    names = ['q%d' % (i + 1) for i in range(n)]
    ev = []
    solo = {}
    sp = lib.Parser()
    sp.set_variable('va', 3)
    from .values import outcome
    for i, name in enumerate(names):
        ev.append({'e': 'setvar', 'p': name, 'name': 'va', 'v': enc(3)})
    for i, name in enumerate(names):
        for j, f in enumerate(forms[i]):
            if f not in solo:
                solo[f] = outcome(sp.parse(f))
            o = outs[i][j] if outs[i] is not None else BLOCKED
            ev.append({'e': 'parse', 'p': name, 'formula': f, 'ast': {'k': 'omit'}, 'out': o, 'events': [], 'calls': [],
                       'solo': solo[f], 'checks': ['solo']})
    return ev, names


# ------------------------------------------------------------------ a busy process against a fresh one

BUSY = ['SUM(TRUE,1)', 'TRUE&""', '1&""', '(4/4)&""', '1=TRUE', 'MAX(1,TRUE)', 'ABS(TRUE)', '2^53', '2^53/1', '9007199254740992+0',
        '"1"+0', '"1.0"+0', '1.0*1', 'IF(1,2,3)', 'IF(TRUE,2,3)', 'COUNT(1,TRUE,"1")', 'LEN(1)', 'LEN(TRUE)', 'UPPER("true")',
        'MATCH(1,{TRUE,1},0)', 'INDEX({1,2},TRUE)', 'ROUND(1,TRUE)', '1/0', 'nosuch+1', '1+*', '#REF!+1', 'SUM(1,NA())', '0=FALSE',
        'DATE(2020,1,TRUE)', 'DEC2HEX(1)', 'DEC2HEX(TRUE)', 'SWITCH(1,TRUE,"t",1,"one")', 'N(TRUE)', 'AND(1,1)', 'OR(0,FALSE)',
        'sum(1,2)', 'Sum(1,2)', 'abs(0-1)', 'Abs(0-1)', 'Len("ab")', 'len("ab")', 'SUM(1,2)', 'sum(1,2)', 'Sum(1,2)', 'abs(0-1)']     # (q1 has Sum, abs, Len of its own)
FRESH_PROBES = ['MAXA(4/4,0)=1', '(4/4)&""', '1&""', 'TRUE&""', 'ISLOGICAL(4/4)', 'ISNUMBER(TRUE)', 'SUM(1,TRUE)', '1=TRUE', '2^53+1',
                '(2^53/1)+1', '"1"&""', 'SWITCH(1,TRUE,"t",1,"one")', 'SWITCH(TRUE,1,"one",TRUE,"t")', 'MATCH(TRUE,{1,TRUE},0)', 'LEN(4/4)',
                'LEN(TRUE)', 'IF(4/4,"y","n")', 'COUNT(TRUE,4/4)', '0=FALSE', 'N(4/4)', 'ROUND(2.567,4/4)', 'DEC2HEX(4/4)', 'va*2', 'ABS(0-va)',
                'sum(1,2)', 'Sum(1,2)', 'abs(0-1)', 'Abs(0-1)', 'SUM(1,2)', 'ABS(0-1)', 'Len("ab")', 'len("ab")', 'LEN("ab")']


def fresh_child(steps):
    import subprocess
    r = subprocess.run(['/venv/bin/python', os.path.join(core.VERIF, 'harness', 'fresh_child.py'), core.lib_path(), core.VERIF,
                        json.dumps(steps)], stdout=subprocess.PIPE, stderr=subprocess.DEVNULL, universal_newlines=True, timeout=300)
    try:
        return json.loads(r.stdout.strip().splitlines()[-1])
    except Exception:
        raise core.MachineryError('fresh interpreter produced no result (rc=%s)' % r.returncode)


def run_busy(lib, case):
    """parser q2 in a process where parser q1 (and q2 itself) evaluated many other formulas before, against q2 alone in
    a fresh interpreter"""
    rng = random.Random(case['seed'])
    busy = [(rng.choice(['q1', 'q1', 'q2']), rng.choice(BUSY)) for _ in range(case['n'])]
    probes = [('q2', f) for f in FRESH_PROBES]
    got = fresh_child(busy + probes)[len(busy):]
    alone = fresh_child(probes)
    ev = [{'e': 'setvar', 'p': 'q1', 'name': 'va', 'v': enc(3)}, {'e': 'setvar', 'p': 'q2', 'name': 'va', 'v': enc(3)}]
    for (pn, f), o, so in zip(probes, got, alone):
        ev.append({'e': 'parse', 'p': pn, 'formula': f, 'ast': {'k': 'omit'}, 'out': o, 'events': [], 'calls': [], 'solo': so,
                   'checks': ['solo']})
    return ev, ['q1', 'q2']


# ------------------------------------------------------------------ one handler object on several parsers

SHARED_FORMS = [{'raw': 'A1+1'}, {'raw': 'SUM(A1,B2)&va'}]


def shared_handler():
    def shared(cell, setter):          # what a host wiring several parsers to one sheet registers everywhere
        setter(77)
    return shared


def solo_shared(lib, p, how, k, cache={}):
    """outcomes of the k-th evaluation round on parser p when only p exists with that subscription"""
    key = (p, how)
    if key not in cache:
        w = World(lib, names=(p,))
        if how != 'none':
            getattr(w.h[p].p, how)('callCellValue', shared_handler())
        cache[key] = [[w.parse(p, f)['out'] for f in SHARED_FORMS] for _ in range(4)]
    return cache[key][k]


def run_shared(lib, case):
    w = World(lib)
    shared = shared_handler()
    hows = dict(case['subs'])
    for p, how in case['subs']:
        if how != 'none':
            getattr(w.h[p].p, how)('callCellValue', shared)
    seen = collections.Counter()
    for p in case['order']:
        solo = solo_shared(lib, p, hows[p], seen[p])
        seen[p] += 1
        for f, so in zip(SHARED_FORMS, solo):
            w.parse(p, f, so)
    return w.ev


# ------------------------------------------------------------------ a crowd of evaluations in flight at once

def run_crowd(lib, case, attempt=0):
    """n threads, each on its own parser object, all between their first and last token at the same time"""
    patch_lexer()
    n = case['n']
    names = ['q%d' % i for i in range(1, n + 1)]
    w = World(lib, names=names)
    yield_in_listeners(w)
    forms = [(names[i], case['formulas'][i % len(case['formulas'])]) for i in range(n)]
    counts = [count_token_reads(lib, p, f) + 2 for p, f in forms]
    sched = []
    left = list(counts)
    while any(left):                    # round robin: everybody starts before anybody finishes
        for i in range(n):
            if left[i]:
                sched.append(i + 1)
                left[i] -= 1
    baton = Baton(sched, list(range(1, n + 1)))
    solos = [solo_outcome(lib, p, f) for p, f in forms]

    def body(tid, p, f, solo):
        _local.baton, _local.tid = baton, tid
        try:
            baton.yield_point(tid)
            w.parse(p, f, solo)
            baton.yield_point(tid)
        finally:
            _local.baton = None
            baton.finish(tid)

    ts = [threading.Thread(target=body, args=(i + 1, p, f, solos[i]), daemon=True) for i, (p, f) in enumerate(forms)]
    for t in ts:
        t.start()
    stuck = False
    for t in ts:
        t.join(60)
        stuck = stuck or t.is_alive()
    if stuck or baton.failed:
        if attempt == 0:
            return run_crowd(lib, case, attempt=1)
        STALLS[0] += 1
        return blocked_events(w, forms, solos), names
    return w.ev, names

# ------------------------------------------------------------------ TLC schedules

def tlc_schedules(run, mode, len1, len2, cache={}):
    key = (mode, len1, len2)
    if key in cache:
        return cache[key]
    cfg = os.path.join(core.scratch(), 'ls_%s_%d_%d.cfg' % key)
    cf = os.path.join(core.scratch(), 'ls_%s_%d_%d.ndjson' % key)
    open(cfg, 'w').write('SPECIFICATION Spec\nCONSTANTS\n  Ownership = "per_call"\n  Mode = "%s"\n  SameParser = FALSE\n'
                         '  Len1 = %d\n  Len2 = %d\n  Export = TRUE\nINVARIANT Isolation\nINVARIANT ExportInv\n'
                         'CHECK_DEADLOCK FALSE\n' % (mode, len1, len2))
    r = core.run_tlc('XLLexShare.tla', cfg, env={'CASE_FILE': cf}, workers=8)
    run.add_tlc('XLLexShare[per_call,%s,%d,%d]' % key, r)
    cache[key] = [c['sched'] for c in core.read_cases(cf)]
    return cache[key]


def mechanism_matrix(run):
    """the design-level result: which cursor ownership satisfies isolation"""
    m = {}
    for own in ('process_global', 'per_parser', 'per_call'):
        for mode in ('nest', 'thread'):
            for same in ('TRUE', 'FALSE'):
                cfg = os.path.join(core.scratch(), 'lsm.cfg')
                open(cfg, 'w').write('SPECIFICATION Spec\nCONSTANTS\n  Ownership = "%s"\n  Mode = "%s"\n  SameParser = %s\n'
                                     '  Len1 = 3\n  Len2 = 3\n  Export = FALSE\nINVARIANT Isolation\nCHECK_DEADLOCK FALSE\n'
                                     % (own, mode, same))
                r = core.run_tlc('XLLexShare.tla', cfg, env={'CASE_FILE': os.devnull}, workers=4, must_pass=False)
                run.add_tlc('XLLexShare[%s,%s,same=%s]' % (own, mode, same), r)
                m['%s/%s/same_parser=%s' % (own, mode, same)] = 'refuted' if 'Isolation' in r.invariant_violated else \
                    ('holds' if 'No error has been found' in r.out else 'error')
    expect_holds = {k for k in m if k.startswith('per_call') or k in ('per_parser/nest/same_parser=FALSE',
                                                                     'per_parser/thread/same_parser=FALSE')}
    for k, v in m.items():
        if v == 'error' or (v == 'holds') != (k in expect_holds):
            raise core.MachineryError('XLLexShare: unexpected result %s for %s' % (v, k))
    run.extra['cursor_ownership_vs_isolation'] = m


def main(tier, replay=None):
    run = core.Run('C03', tier, keep_replays=bool(replay))
    lib = core.load_library()
    names, bconst = core.builtins_constant()
    consts = {'Builtins': bconst}
    run.rule = ('one history = three pre-built parsers with distinct bindings, an outer evaluation with a complete inner '
                'evaluation interposed at one of its callback points (optionally nesting once more), or two/three '
                'evaluations in threads under an enforced token-level schedule; distinct by (formulas, placement or '
                'schedule); non-trivial = all')
    run.assumptions = ['threads run on distinct parser objects (the statement does not cover threads sharing one parser)',
                       'interleavings are enforced at token-read granularity (every ply Lexer.token call), begin and end',
                       'callbacks return normally']
    if replay:
        case = json.load(open(replay))['case']
        if case['kind'] in ('crowd', 'cold', 'busy'):
            ev, names = run_crowd(lib, case) if case['kind'] == 'crowd' else run_cold(lib, case) if case['kind'] == 'cold' \
                else run_busy(lib, case)
            core.validate_hist(run, [{'tid': 1, 'ev': ev, 'case': case}], 'replay', consts, engine='c03', parsers=names)
            return run.finish()
        ev = run_nested(lib, case)[0] if case['kind'] == 'nest' else run_shared(lib, case) if case['kind'] == 'shared' \
            else run_delegate(lib, case) if case['kind'] == 'delegate' else run_threads(lib, case)
        core.validate_hist(run, [{'tid': 1, 'ev': ev, 'case': case}], 'replay', consts, engine='c03')
        return run.finish()
    quick = tier == 'quick'
    rng = random.Random(run.seed)
    mechanism_matrix(run)
    class Flushing(list):
        """the histories are judged 1500 at a time and forgotten (all of the thorough tier together took 16 GB)"""
        total = 0
        part = 0
        first = None
        last = None

        def append(self, t):
            list.append(self, t)
            self.total += 1
            if self.total == 4:
                self.first = t['case']
            self.last = t['case']
            if len(self) >= 1500:
                self.flush()

        def flush(self):
            if len(self):
                core.validate_hist(run, list(self), 'p%d' % self.part, consts, engine='c03')
                self.part += 1
                del self[:]
    traces = Flushing()
    # --- nesting: every callback point of every outer formula x inner formulas x same/other parser x depth
    outers, inners = outer_pool(), inner_pool()
    for oi, outer in enumerate(outers):
        c = callback_points(lib, outer)
        scheds = tlc_schedules(run, 'nest', c + 1, 1)
        ats = sorted(set(sum(1 for s in sc[:[tuple(x) for x in sc].index(('begin', 2))] if s[0] == 'tok') for sc in scheds))
        for at in ats:
            if at < 1 or at > c:
                continue
            for ii, inner in enumerate(inners):
                for target in ('p2', 'p1'):
                    thirds = [None]
                    if 'raw' not in inner:
                        thirds += [inners[1], inners[0]] if not quick or (oi + ii + at) % 3 == 0 else []
                    for third in thirds:
                        for t3 in (('p3', 'p1') if third is not None else ('p3',)):
                            for post in ((False, True) if third is None or not quick else (False,)):
                                case = {'kind': 'nest', 'outer': outer, 'inner': inner, 'third': third, 'target': target,
                                        'target3': t3, 'at': at, 'post': post}
                                ev, _ = run_nested(lib, case)
                                traces.append({'tid': len(traces) + 1, 'ev': ev, 'case': case})
                                if third is None and at == ats[0]:
                                    # the same, nesting at every callback point of the outer evaluation (a sheet whose cells
                                    # hold formulas), and after failed evaluations on the parsers involved
                                    for extra in ({'every': True}, {'prefail': True}, {'every': True, 'prefail': True}):
                                        c2 = dict(case, **extra)
                                        ev, _ = run_nested(lib, c2)
                                        traces.append({'tid': len(traces) + 1, 'ev': ev, 'case': c2})
    run.extra['nesting_histories'] = traces.total
    DBG('nesting done', traces.total)
    # --- the listener hands the inner evaluation to another thread and waits for it
    ndel = nblocked = 0
    for oi, outer in enumerate(outers):
        c = callback_points(lib, outer)
        for at in range(1, c + 1):
            for ii in ((1, 2, 5) if quick else range(len(inners))):
                for post in (False, True):
                    if nblocked >= 2:       # two evaluations that never came back are enough (each costs seconds of waiting)
                        continue
                    case = {'kind': 'delegate', 'outer': outer, 'inner': inners[ii], 'target': 'p2', 'at': at, 'post': post}
                    ev = run_delegate(lib, case)
                    nblocked += any(e['e'] == 'parse' and e['out'] is BLOCKED for e in ev)
                    traces.append({'tid': len(traces) + 1, 'ev': ev, 'case': case})
                    ndel += 1
    run.extra['delegating_histories'] = ndel
    DBG('delegates done', ndel, nblocked)
    # --- threads: all interleavings of two short evaluations on distinct parsers
    longnum = {'raw': 'ISNUMBER("' + '9' * 5000 + '"+0)&LEN("' + '7' * 4400 + '"&"")'}     # a numeral longer than Python converts by default
    pairs = [(inners[0], inners[1]), (outers[0], inners[1]), (longnum, inners[1]), (inners[5], inners[3]), (outers[3], outers[2]),
             (inners[4], inners[0]), (inners[6], inners[1])]
    if quick:
        pairs = pairs[:4]
    nthread = 0
    for f1, f2 in pairs:
        n1, n2 = count_token_reads(lib, 'p1', f1), count_token_reads(lib, 'p2', f2)
        if (n1 + 2, n2 + 2) > (9, 9) or quick and n1 + n2 > 12:
            # too many interleavings to enumerate: a seeded sample of schedules instead
            scheds = []
            for _ in range(400 if quick else 5000):
                s = [1] * (n1 + 2) + [2] * (n2 + 2)
                rng.shuffle(s)
                scheds.append(s)
        else:
            scheds = [[x[1] for x in sc] for sc in tlc_schedules(run, 'thread', n1, n2)]
        # and always: one evaluation begins, the other begins and runs a little, the first one ends, the other one goes on
        for a, b, na, nb in ((1, 2, n1 + 2, n2 + 2), (2, 1, n2 + 2, n1 + 2)):
            for k in (1, 2, 3):
                if k < nb:
                    scheds.append([a] + [b] * k + [a] * (na - 1) + [b] * (nb - k))
        for sc in scheds:
            if STALLS[0] >= 2:
                break
            case = {'kind': 'thread', 'formulas': [('p1', f1), ('p2', f2)], 'schedule': sc}
            traces.append({'tid': len(traces) + 1, 'ev': run_threads(lib, case), 'case': case})
            nthread += 1
    # --- three threads, longer formulas, random schedules
    for _ in range(150 if quick else 4000):
        fs = [('p1', rng.choice(outers + inners)), ('p2', rng.choice(outers + inners)), ('p3', rng.choice(outers + inners))]
        s = []
        for i, (p, f) in enumerate(fs):
            s += [i + 1] * (count_token_reads(lib, p, f) + 2)
        rng.shuffle(s)
        if STALLS[0] >= 2:
            break
        case = {'kind': 'thread', 'formulas': fs, 'schedule': s}
        traces.append({'tid': len(traces) + 1, 'ev': run_threads(lib, case), 'case': case})
        nthread += 1
    run.extra['thread_histories'] = nthread
    DBG('threads done', nthread, STALLS[0])
    run.extra['schedules_under_which_a_thread_stalled'] = STALLS[0]
    # --- one handler function subscribed (on / once / not at all) on two parsers, evaluations in sequence
    nshared = 0
    for h1 in ('none', 'on', 'once'):
        for h2 in ('none', 'on', 'once'):
            if h1 == h2 == 'none':
                continue
            for order in (['p1', 'p2', 'p1', 'p2'], ['p2', 'p1', 'p2', 'p1'], ['p1', 'p1', 'p2', 'p2', 'p1']):
                case = {'kind': 'shared', 'subs': [('p1', h1), ('p2', h2)], 'order': order}
                traces.append({'tid': len(traces) + 1, 'ev': run_shared(lib, case), 'case': case})
                nshared += 1
    run.extra['shared_handler_histories'] = nshared
    DBG('shared done')
    traces.flush()
    # --- many evaluations in flight at once, one parser object each
    crowd = []
    for n in ((40,) if quick else (40, 70, 130)):
        if STALLS[0] >= 2:
            break
        case = {'kind': 'crowd', 'n': n, 'formulas': [inners[0], inners[1], outers[3], inners[5]]}
        ev, names = run_crowd(lib, case)
        core.validate_hist(run, [{'tid': 1, 'ev': ev, 'case': case}], 'crowd%d' % n, consts, engine='c03', parsers=names)
        crowd.append(n)
    run.extra['crowds_in_flight'] = crowd
    # --- cold start: the first evaluations of a fresh interpreter, in several threads at the same moment
    ncold = 0
    for rep in range(6 if quick else 40):
        case = {'kind': 'cold', 'n': [2, 4, 8][rep % 3], 'step': 1 + rep % 5, 'rep': rep}
        ev, names = run_cold(lib, case)
        core.validate_hist(run, [{'tid': 1, 'ev': ev, 'case': case}], 'cold%d' % rep, consts, engine='c03', parsers=names)
        ncold += 1
    run.extra['cold_starts'] = ncold
    # --- a parser in a process where other parsers were busy, against the same parser in a fresh interpreter
    for rep in range(4 if quick else 30):
        case = {'kind': 'busy', 'n': [20, 60, 150, 400][rep % 4], 'seed': run.seed * 100 + rep}
        ev, names = run_busy(lib, case)
        core.validate_hist(run, [{'tid': 1, 'ev': ev, 'case': case}], 'busy%d' % rep, consts, engine='c03', parsers=names)
    run.extra['busy_against_fresh_interpreter'] = 4 if quick else 30
    run.exhaustive = True
    run.samples = [{'case': traces.first}, {'case': traces.last}]
    return run.finish()
