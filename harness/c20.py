# -*- coding: utf-8 -*-
"""C20 - event emitter.  MC of spec/Emitter (reference and mechanism variant), replay of
TLC's behaviours on the real hotxlfp.Emitter / hotxlfp.Parser, random longer behaviours,
all call logs validated by TLC against Trace_C20."""
import functools
import hashlib
import json
import os
import random

from . import core

NAMES = ['x', 'xy', 'y', 'X', 'Xy']          # one name is a prefix of another; two differ in letter case only
PNAMES = ['callVariable', 'callVariableX', 'x', 'callvariable', 'X']


class TooLong(BaseException):
    pass


class Host(object):
    """one class for all host objects: their bound methods share the function and differ in the receiver"""

    def __init__(self, fn):
        self.fn = fn

    def handle(self, *args, **kw):
        return self.fn(*args, **kw)


LISTARG = [1, 2]


def _undecorated(*args, **kw):
    return None


CTXKEYS = ['c', 'self', 'name', 'callback', 'fn', 'event', 'args', 'ctx']     # a context may use any key


class Recorder(object):
    """Runs one behaviour on a real emitter and records every public call, every callback
    entry/exit.  Purely observational: nothing of the emitter's internals is read."""

    def __init__(self, em, scripts, max_depth, cap=1500, cbkind='closure'):
        self.cbkind = cbkind
        self.em = em
        self.scripts = scripts          # {cb id: [op, ...]}
        self.max_depth = max_depth
        self.depth = 0
        self.ev = []
        self.cap = cap
        self.cbs = {}

    def cb(self, c):
        if c not in self.cbs:
            def callback(*args, **kw):
                self.log({'e': 'call', 'k': '', 'n': '', 'cb': c,
                          'x': [(700 if a is LISTARG else 701) if isinstance(a, list) else a for a in args],
                          'c': list(kw.values())[:1]})
                self.depth += 1
                try:
                    if self.depth <= self.max_depth:
                        for o in self.scripts.get(c, ()):
                            self.do(o)
                finally:
                    self.depth -= 1
                self.log({'e': 'cbret', 'k': '', 'n': '', 'cb': 0, 'x': [], 'c': []})
            if self.cbkind == 'method':
                # a host object's method: every access builds a new bound-method object, equal to the others
                self.cbs[c] = Host(callback)
            elif self.cbkind == 'wrapped':
                # decorated callbacks: they all carry a __wrapped__ attribute pointing at one and the same plain function
                self.cbs[c] = functools.wraps(_undecorated)(callback)
            else:
                self.cbs[c] = callback
        if self.cbkind == 'unretained':
            # a method of an object nobody but the emitter refers to (e.on(name, Sheet().cell)): still a subscription
            return Host(self.cbs[c]).handle
        return self.cbs[c].handle if self.cbkind == 'method' else self.cbs[c]

    def log(self, e):
        if len(self.ev) >= self.cap:
            raise TooLong()
        self.ev.append(e)

    def do(self, o):
        k, n = o['k'], o['n']
        self.log({'e': 'op', 'k': k, 'n': n, 'cb': o['cb'], 'x': list(o['x']), 'c': []})
        em = self.em
        try:
            self.apply(em, k, n, o)
        except TooLong:
            raise
        except (RecursionError, core.MachineryError):
            raise
        except Exception as e:      # no operation of the emitter fails, whatever the callbacks and contexts are
            self.log({'e': 'exc', 'k': k, 'n': n, 'cb': 0, 'x': [], 'c': []})

    def apply(self, em, k, n, o):
        if k in ('on', 'once'):
            f = em.on if k == 'on' else em.once
            if o['x']:
                # (a bound method cannot be handed a context key named like its own receiver parameter)
                keys = CTXKEYS if self.cbkind not in ('method', 'unretained') else [k for k in CTXKEYS if k != 'self']
                f(n, self.cb(o['cb']), {keys[(o['cb'] + o['x'][0]) % len(keys)]: o['x'][0]})
            else:
                f(n, self.cb(o['cb']))
        elif k == 'off':
            em.off(n)
        elif k == 'offcb':
            em.off(n, self.cb(o['cb']))
        elif k == 'emit':
            em.emit(n, *[LISTARG if a == 700 else a for a in o['x']])      # (700: one and the same list object, every time)
            self.log({'e': 'emitret', 'k': '', 'n': '', 'cb': 0, 'x': [], 'c': []})
        else:
            raise core.MachineryError('bad op ' + repr(o))


def make_emitter(target):
    lib = core.load_library()
    if target == 'Parser':
        return lib.Parser()
    from hotxlfp.tinyemitter import Emitter
    return Emitter()


def run_case(case):
    em = make_emitter(case.get('target', 'Emitter'))
    scripts = {int(k): v for k, v in case['script'].items()}
    r = Recorder(em, scripts, case['max_depth'], cbkind=case.get('cbkind', 'closure'))
    try:
        for o in case['hist']:
            r.do(o)
    except TooLong:
        return None
    except RecursionError:
        return None
    return r.ev


def random_case(rng, target):
    names = PNAMES if target == 'Parser' else NAMES
    cbs = [1, 2, 3, 4]

    def op(in_script):
        k = rng.choice(['on', 'on', 'once', 'once', 'off', 'offcb', 'emit', 'emit', 'emit'])
        n = rng.choice(names[:2] if rng.random() < 0.6 else names)
        if k in ('on', 'once'):
            return {'k': k, 'n': n, 'cb': rng.choice(cbs), 'x': rng.choice([[], [], [7], [9]])}
        if k == 'off':
            return {'k': k, 'n': n, 'cb': 0, 'x': []}
        if k == 'offcb':
            return {'k': k, 'n': n, 'cb': rng.choice(cbs), 'x': []}
        return {'k': k, 'n': n, 'cb': 0, 'x': rng.choice([[], [1], [1, 2], [700], [3, 700]])}

    script = {}
    for c in rng.sample(cbs, rng.randint(0, 3)):
        script[str(c)] = [op(True) for _ in range(rng.randint(1, 2))]
    hist = [op(False) for _ in range(rng.randint(3, 40))]
    kind = rng.choice(['closure', 'closure', 'method', 'wrapped', 'unretained'])
    if kind == 'unretained':      # (there is no second reference to unsubscribe with)
        hist = [o for o in hist if o['k'] != 'offcb']
        script = {k: [o for o in v if o['k'] != 'offcb'] for k, v in script.items()}
    return {'hist': hist, 'script': script, 'max_depth': rng.choice([1, 2, 2, 3]), 'target': target, 'cbkind': kind}


def relevant(case):
    """Drop TLC behaviours whose script can never run (its callback is never subscribed):
    they coincide with the script-free behaviour, which is exported as well."""
    sub = set()
    for o in case['hist']:
        if o['k'] in ('on', 'once'):
            sub.add(o['cb'])
    for c, s in case['script'].items():
        if s and int(c) not in sub:
            return False
    return any(o['k'] == 'emit' for o in case['hist'])


MAXLOG = 500      # events; longer logs of callbacks that keep subscribing equal listeners make the trace specification branch without bound


def validate(run, cases, label, maxlog=MAXLOG):
    """Execute cases on the real code, have TLC validate the recorded logs."""
    kept = []
    for case in cases:
        ev = run_case(case)
        if ev is None:
            continue
        if maxlog and len(ev) > maxlog:
            run.extra['behaviours_longer_than_%d_events_not_validated' % MAXLOG] = \
                run.extra.get('behaviours_longer_than_%d_events_not_validated' % MAXLOG, 0) + 1
            continue
        kept.append((case, ev))
    if kept:
        judge(run, kept, label)
        if len(run.samples) < 4:
            run.samples.append({'case': kept[len(kept) // 2][0], 'recorded_events': kept[len(kept) // 2][1]})


def judge(run, kept, label, budget=400):
    tf = os.path.join(core.scratch(), 'c20_%s.ndjson' % label)
    with open(tf, 'w') as f:
        for i, (case, ev) in enumerate(kept, 1):
            f.write(json.dumps({'tid': i, 'ev': ev}) + '\n')
    try:
        r = core.run_tlc('Trace_C20.tla', 'Trace_C20.cfg', env={'TRACE_FILE': tf}, timeout=budget)
    except core.MachineryError as e:
        if 'timed out' not in str(e):
            raise
        # some log in this batch makes the trace specification branch too much: find it by halving; a single log that
        # cannot be judged in the budget is counted, not judged (never a verdict either way)
        if len(kept) == 1:
            run.extra['behaviours_not_validated_in_%ds' % budget] = run.extra.get('behaviours_not_validated_in_%ds' % budget, 0) + 1
            return
        h = (len(kept) + 1) // 2
        judge(run, kept[:h], label + 'a', budget)
        judge(run, kept[h:], label + 'b', budget)
        return
    finally:
        try:
            os.remove(tf)
        except OSError:
            pass
    run.add_tlc('Trace_C20[%s]' % label, r)
    acc = set()
    rej = {}
    for v in core.printed_values(r.out):
        if v[0] == 'ACC':
            acc.add(v[1])
        elif v[0] == 'REJ':
            if v[1] not in rej or rej[v[1]][0] < v[2]:
                rej[v[1]] = (v[2], v[3])
    for i, (case, ev) in enumerate(kept, 1):
        run.traces += 1
        run.evaluations += 1
        if i in acc:
            nd = sum(1 for o in case['hist'] if o['k'] == 'emit')
            if nd:
                run.distinct.add(hash(json.dumps(case, sort_keys=True)))
            continue
        at = rej.get(i, (0, 'no verdict printed'))
        run.violation(case, 'bad: call log not explained by the reference emitter at event %d (%s)'
                      % (at[0], at[1]), engine='c20')


def main(tier, replay=None):
    run = core.Run('C20', tier, keep_replays=bool(replay))
    run.rule = ('behaviour = driver history of on/once/off/off(cb)/emit operations plus scripts run by '
                'callbacks during delivery; non-trivial = contains at least one emit; distinct by '
                '(history, scripts, depth bound, target class)')
    run.assumptions = ['listeners return normally (the statement does not cover raising listeners)',
                       'callbacks identify themselves by id; the event name of a delivery is inferred '
                       'from the enclosing emit',
                       'where a once-listener sits in the snapshots of two nested emits of its name the '
                       'reference lets either emit deliver it, never both']
    if replay:
        case = json.load(open(replay))['case']
        validate(run, [case], 'replay')
        return run.finish()

    quick = tier == 'quick'
    # 1. MC of the reference: laws hold; export behaviours
    cf = os.path.join(core.scratch(), 'c20_cases.ndjson')
    cfg = 'MC_C20_quick.cfg' if quick else 'MC_C20_thorough.cfg'
    r = core.run_tlc('MC_C20.tla', cfg, env={'CASE_FILE': cf}, timeout=3000)
    run.add_tlc(cfg, r)
    # 2. MC of the mechanism variant (pinned design: once-wrapper only unsubscribes itself):
    #    TLC must refute OnceAtMostOnce - documents that the guard is necessary.
    r2 = core.run_tlc('MC_C20.tla', 'MC_C20_mech.cfg', env={'CASE_FILE': os.devnull}, must_pass=False,
                      timeout=600)
    run.extra['mechanism_variant_without_once_guard_refuted'] = 'OnceAtMostOnce' in r2.invariant_violated
    if not run.extra['mechanism_variant_without_once_guard_refuted']:
        raise core.MachineryError('mechanism variant not refuted:\n' + r2.out[-1500:])
    # 3. S2C: replay TLC's behaviours (read as a stream: the thorough model exports millions; a seeded reservoir sample of
    #    the relevant ones is replayed)
    rng = random.Random(run.seed)
    limit = 12000 if quick else 60000
    cases = []
    seen = set()
    nrel = 0
    for ln in open(cf):
        ln = ln.strip()
        if not ln:
            continue
        k = hashlib.sha1(ln.encode()).digest()[:8]
        if k in seen:
            continue
        seen.add(k)
        c = json.loads(json.loads(ln))
        case = {'hist': c['hist'],
                'script': {str(i + 1): sc for i, sc in enumerate(c['script']) if sc},
                'max_depth': 1, 'target': 'Emitter'}
        if not relevant(case):
            continue
        nrel += 1
        if len(cases) < limit:
            cases.append(case)
        else:
            j = rng.randrange(nrel)
            if j < limit:
                cases[j] = case
    run.extra['tlc_behaviours_exported'] = len(seen)
    run.extra['tlc_behaviours_relevant'] = nrel
    run.exhaustive = nrel <= limit
    run.extra['tlc_behaviours_replayed'] = len(cases)
    for i, c in enumerate(cases):
        if i % 3 == 2:      # callbacks that are bound methods of host objects (equal, not identical, from access to access)
            c['cbkind'] = 'method'
        elif i % 6 == 1:
            c['cbkind'] = 'wrapped'
    CH = 20000
    for i in range(0, len(cases), CH):
        validate(run, cases[i:i + CH], 's2c%d' % (i // CH))
    # 4. C2S: random longer behaviours, on Emitter and on Parser (which is an Emitter)
    # a chain of emits nested 80 deep through one callback (a cell depending on a cell depending on a cell ...), on both kinds of emitter
    deep = []
    for target in ('Emitter', 'Parser'):
        for name in ('x', 'callVariable' if target == 'Parser' else 'xy'):
            deep.append({'hist': [{'k': 'on', 'n': name, 'cb': 1, 'x': []}, {'k': 'on', 'n': name, 'cb': 2, 'x': []},
                                  {'k': 'emit', 'n': name, 'cb': 0, 'x': [1]}, {'k': 'emit', 'n': name, 'cb': 0, 'x': []}],
                         'script': {'1': [{'k': 'emit', 'n': name, 'cb': 0, 'x': [2]}]}, 'max_depth': 80, 'target': target, 'cbkind': 'closure'})
    validate(run, deep, 'deep', maxlog=None)      # (one listener chain: long but unambiguous)
    n = 1500 if quick else 24000
    RCH = 1500       # long random behaviours branch in the trace specification: batches of the quick tier's size keep TLC fast (6000 at once took over 20 minutes)
    for target in ('Emitter', 'Parser'):
        rc = [random_case(rng, target) for _ in range(n if target == 'Emitter' else n // 3)]
        for i in range(0, len(rc), RCH):
            validate(run, rc[i:i + RCH], 'c2s_%s%d' % (target, i // RCH))
    return run.finish()
