# -*- coding: utf-8 -*-
"""pytest plugin (loaded with -p suite_plugin from a scratch directory): records every built-in or
custom function call the repository's own tests make through Parser.call_function - name, evaluated
arguments, value - so that the specification can judge each of them, not only the assertions the
test author wrote.  If the attribute it wraps is gone it records nothing."""
import json
import os
import sys

sys.path.insert(0, os.environ['VERIF_HOME'])
from harness.values import enc  # noqa

OUT = open(os.environ['VERIF_TRACE_OUT'], 'a')


def _install():
    try:
        from hotxlfp.parser import Parser
        from hotxlfp.formulas.error import XLError
        orig = Parser.call_function
    except Exception:
        return

    def traced(self, name, args=None):
        custom = name in getattr(self, 'functions', {})
        try:
            r = orig(self, name, args)
        except BaseException as e:
            OUT.write(json.dumps({'f': name, 'args': [enc(a) for a in (args or [])], 'custom': custom,
                                  'raised': type(e).__name__, 'res': {'t': 'blank'}}) + '\n')
            raise
        OUT.write(json.dumps({'f': name, 'args': [enc(a) for a in (args or [])], 'custom': custom, 'raised': '',
                              'res': enc(r)}) + '\n')
        OUT.flush()
        return r
    Parser.call_function = traced


_install()
