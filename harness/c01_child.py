# -*- coding: utf-8 -*-
"""Child process of the C01 check: parses texts one by one, announcing each before it starts, so
that the parent can kill it when one input does not come back (a C-level loop such as a regular
expression backtracking cannot be interrupted from inside the process)."""
import json
import resource
import sys

resource.setrlimit(resource.RLIMIT_AS, (6 * 2 ** 30, 6 * 2 ** 30))      # a runaway allocation ends in MemoryError, not in the OOM killer

sys.path.insert(0, sys.argv[1])          # scratch copy of the tree under test
sys.path.insert(0, sys.argv[3])          # /verif
from harness.values import outcome       # noqa
import hotxlfp                            # noqa

texts = json.load(open(sys.argv[2]))
start = int(sys.argv[4])
p = hotxlfp.Parser()
p.set_variable('va', 3)
p.on('callCellValue', lambda c, done: done(5))
p.on('callRangeValue', lambda a, b, done: done([[1, 2], [3, 4]]))
for i in range(start, len(texts)):
    sys.stdout.write('BEGIN %d\n' % i)
    sys.stdout.flush()
    try:
        rec = p.parse(texts[i])
        out = {'i': i, 'raised': False, 'out': outcome(rec)}
    except BaseException as e:
        out = {'i': i, 'raised': True, 'out': None}
    sys.stdout.write('END ' + json.dumps(out) + '\n')
    sys.stdout.flush()
