# -*- coding: utf-8 -*-
"""Formula trees (the node records of spec/XLEval.tla): rendering to text and execution on a real
parser with recording listeners / custom functions.  Nothing here judges an outcome."""
from .values import enc, dec, outcome


def S(cps):
    return ''.join(chr(c) for c in cps)


def cps(s):
    return [ord(c) for c in s]


# ---- constructors (used by generators)
def num(lex):
    return {'k': 'num', 's': cps(lex)}


def string(content, q='"'):
    return {'k': 'str', 's': cps(content), 'q': ord(q)}


def var(name):
    return {'k': 'var', 'name': name}


def cell(label):
    return {'k': 'cell', 's': cps(label)}


def rng(a, b):
    return {'k': 'range', 'a': cps(a), 'b': cps(b)}


def neg(e):
    return {'k': 'neg', 'e': e}


def paren(e):
    return {'k': 'paren', 'e': e}


def binop(op, l, r):
    return {'k': 'bin', 'op': op, 'l': l, 'r': r}


def call(f, *args):
    return {'k': 'call', 'f': f, 'args': list(args)}


def arr(*items):
    return {'k': 'arr', 'items': list(items)}


def errlit(c):
    return {'k': 'errlit', 'c': c}


OMIT = {'k': 'omit'}


def render(n, sep=',', ws=None):
    """ws: optional callable returning the whitespace to put at the next token boundary."""
    w = ws or (lambda: '')
    k = n['k']
    if k == 'num':
        return S(n['s'])
    if k == 'str':
        q = chr(n.get('q', 34))
        return q + S(n['s']) + q
    if k == 'var':
        return n['name']
    if k == 'cell':
        return S(n['s'])
    if k == 'range':
        return S(n['a']) + w() + ':' + w() + S(n['b'])
    if k == 'errlit':
        return n['c'] + ' '     # a following / or digit would otherwise be lexed into the code
    if k == 'omit':
        return ''
    if k == 'neg':
        return '-' + w() + render(n['e'], sep, ws)
    if k == 'paren':
        return '(' + w() + render(n['e'], sep, ws) + w() + ')'
    if k == 'bin':
        return render(n['l'], sep, ws) + w() + n['op'] + w() + render(n['r'], sep, ws)
    if k == 'call':
        s = n.get('sep', sep)
        return n['f'] + '(' + w() + (w() + s + w()).join(render(a, sep, ws) for a in n['args']) + w() + ')'
    if k == 'arr':
        s = n.get('sep', sep)
        return '{' + w() + (w() + s + w()).join(render(a, sep, ws) for a in n['items']) + w() + '}'
    raise ValueError(k)


def empty_env():
    return {'vars': {}, 'funcs': {}, 'cellsets': [], 'rangesets': [], 'varsets': [], 'fnsets': []}


class HostError(Exception):
    pass


def plain_key(label):
    return label.replace('$', '').upper()


class Harnessed(object):
    """A real parser with the environment of an observation installed: variables, custom functions
    (by mode) and recording listeners that replay the setter values of the environment."""

    def __init__(self, lib, env, parser=None, debug=False, wrap=None):
        self.lib = lib
        self.env = env
        self.p = parser or lib.Parser(debug=debug)
        self.frames = [[[], []]]   # one [events, calls] frame per parse call in progress (re-entrancy); [0] is a sink
        self.hooks = {}       # optional: kind -> callable(harnessed, payload) run inside the listener
        from hotxlfp.formulas import error as xlerror
        self.xlerror = xlerror
        p = self.p
        for name, v in env['vars'].items():
            p.set_variable(name, wrap(dec(v)) if wrap else dec(v))
        for name, c in env['funcs'].items():
            p.set_function(name, self.custom(name, c))
        p.on('callCellValue', self.on_cell)
        p.on('callRangeValue', self.on_range)
        p.on('callVariable', self.on_var)
        p.on('callFunction', self.on_fn)
        self.raises = set(env.get('raises', ()))
        p.on('callCellValue', lambda c, s: self.maybe_raise('cell:*'))
        p.on('callRangeValue', lambda a, b, s: self.maybe_raise('range:*'))
        p.on('callVariable', lambda name, s: self.maybe_raise('var:' + name))
        p.on('callFunction', lambda name, args, s: self.maybe_raise('fn:' + name))

    def maybe_raise(self, tag):
        if tag in self.raises:
            raise HostError('listener raised for ' + tag)

    def custom(self, name, c):
        def fn(*args):
            self.calls.append({'name': name, 'args': [enc(a) for a in args]})
            if 'call:' + name in self.hooks:
                self.hooks['call:' + name](self, args)
            m = c['mode']
            if m == 'const':
                return dec(c['v'])
            if m == 'arg':
                return args[c['i'] - 1]
            if m == 'raise':
                raise self.xlerror.from_message(c['v']['c'])
            raise HostError('boom')
        return fn

    @staticmethod
    def cellrec(c):
        row, col = c.row, c.col
        return {'label': cps(c.label), 'row': row.index, 'col': col.index,
                'rabs': bool(row.is_absolute), 'cabs': bool(col.is_absolute)}

    @property
    def events(self):
        return self.frames[-1][0]

    @property
    def calls(self):
        return self.frames[-1][1]

    def hook(self, kind, payload):
        if kind in self.hooks:
            self.hooks[kind](self, payload)

    def on_cell(self, c, setter):
        # the event is read off the objects after whatever the listener does first (a nested evaluation must
        # not disturb the cells this listener was handed)
        frame = self.events
        self.hook('cell', c.label)
        frame.append({'k': 'cell', 'c': self.cellrec(c)})
        key = cps(plain_key(c.label))
        for s in self.env['cellsets']:
            if s['key'] == key:
                for v in s['vals']:
                    setter(dec(v))
        self.hook('cell:post', c.label)

    def on_range(self, a, b, setter):
        frame = self.events
        self.hook('range', a.label)
        frame.append({'k': 'range', 's': self.cellrec(a), 'e': self.cellrec(b)})
        key = cps(plain_key(a.label) + ':' + plain_key(b.label))
        for s in self.env['rangesets']:
            if s['key'] == key:
                for v in s['vals']:
                    setter(dec(v))
        self.hook('range:post', a.label)

    def on_var(self, name, setter):
        self.events.append({'k': 'var', 'name': name})
        self.hook('var', name)
        for s in self.env['varsets']:
            if s['key'] == name:
                for v in s['vals']:
                    setter(dec(v))
        self.hook('var:post', name)

    def on_fn(self, name, args, setter):
        self.events.append({'k': 'fn', 'name': name, 'args': [enc(a) for a in args]})
        self.hook('fn', name)
        for s in self.env['fnsets']:
            if s['key'] == name:
                for v in s['vals']:
                    setter(dec(v))
        self.hook('fn:post', name)

    def parse(self, text, again=False):
        """again: the same text was evaluated on this parser a moment ago (its record, events and calls discarded) -
        what is observed is the second evaluation, which must not differ from a first one"""
        if again:
            self.frames.append([[], []])
            try:
                self.p.parse(text)
            finally:
                self.frames.pop()
        del self.frames[0][0][:], self.frames[0][1][:]
        self.frames.append([[], []])
        try:
            rec = self.p.parse(text)
            ev, calls = self.frames[-1]
        finally:
            self.frames.pop()
        return {'out': outcome(rec), 'events': ev, 'calls': calls}
