# -*- coding: utf-8 -*-
"""Child process of the C03 check: a fresh interpreter in which the very first evaluations of the process happen at the
same moment in several threads, each on its own parser (nothing has been imported, built or cached before)."""
import json
import sys
import threading

sys.path.insert(0, sys.argv[1])          # scratch copy of the tree under test
sys.path.insert(0, sys.argv[2])          # /verif
formulas = json.loads(sys.argv[3])       # one list of formulas per thread
import hotxlfp                            # noqa
from harness.values import outcome       # noqa

n = len(formulas)
barrier = threading.Barrier(n)
out = [None] * n


def body(i):
    p = hotxlfp.Parser()
    p.set_variable('va', 3)
    barrier.wait()
    out[i] = [outcome(p.parse(f)) for f in formulas[i]]


ts = [threading.Thread(target=body, args=(i,)) for i in range(n)]
for t in ts:
    t.start()
for t in ts:
    t.join(60)
print(json.dumps(out))
