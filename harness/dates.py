# -*- coding: utf-8 -*-
"""Observation builders shared by C13 and C14 (judged by spec/Trace_Date.tla).  The driver converts
day numbers to datetimes with Python's calendar only to have something to hand to the library;
Trace_Date first checks that conversion against its own calendar."""
import datetime

from .values import enc

EPOCH = datetime.datetime(1899, 12, 30)
BASE_N = 36526                                    # 2000-01-01
BASE = EPOCH + datetime.timedelta(days=BASE_N)
LAST = 2958465

DAY_FORMULA = ('{YEAR(vn),MONTH(vn),DAY(vn),DATEVALUE(vd),N(vd),DAYS(vd,vb),vd-vb,DATEVALUE(vn),'
               'DATEVALUE(DATE(vy,vm,vdd)),YEAR(vd),MONTH(vd),DAY(vd),WEEKDAY(vd,1),WEEKDAY(vd,2),WEEKDAY(vd,3),'
               'vd=vn,vd<vn+1,DATEVALUE(vnext),vd+0,vd+vk,vd-7,'
               'YEAR(DATE(vy,vm,vdd)),MONTH(DATE(vy,vm,vdd)),DAY(DATE(vy,vm,vdd)),WEEKDAY(DATE(vy,vm,vdd),2),'
               'DAYS(vd,DATEVALUE(vb)),DAYS(vn,vb),DAYS(DATEVALUE(vd),N(vb)),WEEKDAY(vd,vtf),WEEKDAY(vd,vtf+1)}')


def enc_serial(v):
    """like enc, but a float is always given by its position on the millisecond grid"""
    if isinstance(v, float) and not isinstance(v, bool):
        if v != v or v in (float('inf'), float('-inf')) or not (-1e7 < v < 1e7):
            return {'t': 'flt', 'r': repr(v)}
        if v == int(v):
            return enc(int(v))
        q = round(v * 86400000)
        return {'t': 'flt', 'r': repr(v), 'day': q // 86400000, 'ms': q % 86400000, 'onms': abs(v * 86400000 - q) < 0.05}
    if isinstance(v, (list, tuple)):
        return {'t': 'arr', 'a': [enc_serial(x) for x in v]}
    return enc(v)


def value_of(p, formula):
    r = p.parse(formula)
    if r['error'] is not None:
        return {'t': 'err', 'c': r['error']}
    return enc_serial(r['result'])


def day_obs(p, n):
    d = EPOCH + datetime.timedelta(days=n)
    p.set_variable('vn', n)
    p.set_variable('vd', d)
    p.set_variable('vb', BASE)
    fl = float if n % 5 == 0 else int       # computed arguments (4040/2) are floats holding whole numbers
    p.set_variable('vy', fl(d.year))
    p.set_variable('vm', fl(d.month))
    p.set_variable('vdd', fl(d.day))
    p.set_variable('vtf', 2.0 if n % 2 else 1.0)       # a numbering type that arrives as a float (4/2)
    p.set_variable('vnext', d + datetime.timedelta(days=1) if n < LAST else d)
    k = 7 if n + 7 <= LAST else 0
    p.set_variable('vk', k)
    return {'kind': 'day', 'in': {'n': n, 'y': d.year, 'mo': d.month, 'd': d.day, 'nb': BASE_N, 'k': k},
            'out': value_of(p, DAY_FORMULA)}


def instant_obs(p, y, mo, d, ms):
    dt = datetime.datetime(y, mo, d) + datetime.timedelta(milliseconds=ms)
    p.set_variable('vd', dt)
    p.set_variable('ve', dt + datetime.timedelta(milliseconds=1))
    p.set_variable('vn', (datetime.datetime(y, mo, d) - EPOCH).days)      # the whole part, as an integer on the left
    return {'kind': 'instant', 'in': {'y': y, 'mo': mo, 'd': d, 'ms': ms},
            'out': value_of(p, '{vd+0,DATEVALUE(vd),DATEVALUE(ve),DATEVALUE(vd)<DATEVALUE(ve),INT(DATEVALUE(vd)),'
                               'vn<=vd,vn=vd,vn<vd,vn+1>vd,vd>=vn,vd<ve,ve>vd,N(vd)=DATEVALUE(vd),DAYS(ve,vd)>0,'
                               'vd=vd,vd<=vd,vd>=vd,vd<>vd,vd<vd,vd=DATEVALUE(vd),DATEVALUE(vd)=vd,ve=ve,vd>DATEVALUE(vd),DATEVALUE(vd)>vd}')}


def time_obs(p, h, m, s):
    if (h + m + s) % 4 == 0:      # the parts as computed values: floats holding whole numbers
        p.set_variable('vh', float(h))
        p.set_variable('vmi', float(m))
        p.set_variable('vs', float(s))
        return {'kind': 'time', 'in': {'h': h, 'm': m, 's': s, 'as': 'float variables'},
                'out': value_of(p, '{HOUR(TIME(vh,vmi,vs)),MINUTE(TIME(vh,vmi,vs)),SECOND(TIME(vh,vmi,vs))}')}
    return {'kind': 'time', 'in': {'h': h, 'm': m, 's': s},
            'out': value_of(p, '{HOUR(TIME(%d,%d,%d)),MINUTE(TIME(%d,%d,%d)),SECOND(TIME(%d,%d,%d))}' % ((h, m, s) * 3))}


def iso_obs(p, y, mo, d, h, m, s, sep='T'):
    t = '%04d-%02d-%02d%s%02d:%02d:%02d' % (y, mo, d, sep, h, m, s)
    if (y + mo + d + s) % 4 == 0:
        t += ['.5', '.250', '.000', '.999'][(h + m) % 4]      # ISO 8601 allows a fraction of the second
    p.set_variable('vt', t)
    return {'kind': 'iso', 'in': {'y': y, 'mo': mo, 'd': d, 'h': h, 'm': m, 's': s, 'text': t},
            'out': value_of(p, '{YEAR(vt),MONTH(vt),DAY(vt),HOUR(vt),MINUTE(vt),SECOND(vt)}')}


def year_obs(p, y, m, d):
    return {'kind': 'year', 'in': {'y': y, 'm': m, 'd': d},
            'out': value_of(p, '{YEAR(DATE(%d,%d,%d)),MONTH(DATE(%d,%d,%d)),DAY(DATE(%d,%d,%d))}' % ((y, m, d) * 3))}


def civ(dt):
    return {'y': dt.year, 'mo': dt.month, 'd': dt.day}


def pair_obs(p, a, b):
    p.set_variable('va', a)
    p.set_variable('vb', b)
    return {'kind': 'pair', 'in': {'a': civ(a), 'b': civ(b)},
            'out': value_of(p, '{DAYS(vb,va),DATEDIF(va,vb,"d"),DATEDIF(va,vb,"m"),DATEDIF(va,vb,"y"),DATEDIF(va,vb,"ym"),'
                               'DATEDIF(vb,va,"d"),DATEDIF(vb,va,"m")}')}


def edate_obs(p, a, k):
    p.set_variable('va', a)
    p.set_variable('vk', float(k) if k % 3 == 0 else k)
    return {'kind': 'edate', 'in': {'a': civ(a), 'k': k}, 'out': value_of(p, '{EDATE(va,vk)}')}


def wtype_obs(p, n, t):
    p.set_variable('vd', EPOCH + datetime.timedelta(days=n))
    p.set_variable('vt', float(t) if n % 2 else t)
    return {'kind': 'wtype', 'in': {'n': n, 'type': t}, 'out': value_of(p, '{WEEKDAY(vd,vt)}')}


def quick_days():
    days = set()
    for y0, y1 in ((1900, 1904), (1969, 1971), (1999, 2001), (2037, 2039), (2099, 2101), (9998, 9999), (2399, 2400)):     # (1970 and 2038: where computer clocks start and wrap)
        a = (datetime.datetime(y0, 1, 1) - EPOCH).days
        b = (datetime.datetime(y1, 12, 31) - EPOCH).days
        days.update(range(a, b + 1))
    days.update(range(2, LAST + 1, 97))
    days.update([LAST, LAST - 1, 61, 60, 59, 2, 3])
    return sorted(days)


def run_parallel(fn, chunks, procs=16):
    import multiprocessing
    ctx = multiprocessing.get_context('fork')
    with ctx.Pool(procs) as pool:
        out = []
        for part in pool.imap(fn, chunks):
            out.extend(part)
    return out
