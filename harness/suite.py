# -*- coding: utf-8 -*-
"""Supplementary engine: the repository's own test suite run under a tracer (suite_plugin); every
function call it makes becomes an observation for Trace_Eval, so the whole specification - not just
the test's assertion - is evaluated on executions the tests already produce."""
import json
import os
import shutil
import subprocess

from . import core
from . import formula as F
from .fncases import NAMES


def function_calls():
    lib = core.lib_path()
    work = os.path.join(core.scratch(), 'suite')
    if os.path.exists(os.path.join(work, 'calls.ndjson')):
        return [json.loads(l) for l in open(os.path.join(work, 'calls.ndjson'))]
    os.makedirs(work, exist_ok=True)
    tests = os.path.join(core.REPO, 'tests')
    if not os.path.isdir(tests):
        return []
    shutil.copytree(tests, os.path.join(work, 'tests'), ignore=shutil.ignore_patterns('__pycache__'))
    shutil.copy(os.path.join(core.VERIF, 'harness', 'suite_plugin.py'), work)
    out = os.path.join(work, 'calls.ndjson')
    env = dict(os.environ, PYTHONPATH=lib + os.pathsep + work, VERIF_HOME=core.VERIF, VERIF_TRACE_OUT=out)
    subprocess.run(['/venv/bin/python', '-m', 'pytest', '-q', '-p', 'no:cacheprovider', '-p', 'suite_plugin', 'tests'],
                   cwd=work, env=env, stdout=subprocess.DEVNULL, stderr=subprocess.DEVNULL, timeout=600)
    if not os.path.exists(out):
        return []
    return [json.loads(l) for l in open(out)]


def observations(functions, start_id=1):
    """observations (for Trace_Eval, clause 'value') of the calls of the given built-ins in the suite"""
    obs = []
    seen = set()
    for c in function_calls():
        if c['custom'] or c['raised'] or c['f'] not in functions or len(c['args']) > len(NAMES):
            continue
        key = json.dumps([c['f'], c['args']], sort_keys=True)
        if key in seen:
            continue
        seen.add(key)
        env = F.empty_env()
        env['vars'] = {NAMES[i]: a for i, a in enumerate(c['args'])}
        ast = F.call(c['f'], *[F.var(NAMES[i]) for i in range(len(c['args']))])
        r = c['res']
        out = {'keys': ['error', 'result'], 'res': {'t': 'blank'} if r['t'] == 'err' else r,
               'err': r['c'] if r['t'] == 'err' else '', 'errkind': 'str' if r['t'] == 'err' else 'none'}
        obs.append({'id': start_id + len(obs), 'ast': ast, 'env': env, 'formula': F.render(ast) + '  [repository test suite]',
                    'out': out, 'events': [], 'calls': [], 'checks': ['value'],
                    'in': {'f': c['f'], 'args': c['args'], 'formula': F.render(ast), 'source': 'repository test suite'}})
    return obs
