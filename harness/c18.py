# -*- coding: utf-8 -*-
"""C18 - lookup functions return the addressed element or an error, never another one.  MC_C18
enumerates CHOOSE/INDEX/MATCH calls over small arrays with every index around the bounds, checks
the inverse law on XLFuncs and exports the calls; each is evaluated with the array as a literal, a
host list bound to a variable and a range value, and judged by TLC (Trace_Eval).  C2S: arrays to
8x8, indices -10..size+10, sorted arrays with duplicates, wildcard patterns."""
import json
import os
import random

from . import core, suite, fncases
from .values import enc


def rand_case(rng):
    k = rng.randrange(7)
    if k == 0:
        n = rng.randint(1, 8)
        vals = [enc(rng.choice([10 * i, 'v%d' % i, i + 0.5])) for i in range(1, n + 1)]
        return {'f': 'CHOOSE', 'args': [enc(rng.randint(-10, n + 10))] + vals}
    if k == 1:
        n = rng.randint(1, 8)
        text = rng.random() < 0.4
        a = [enc(('t%d' % i) if text else 7 * i) for i in range(1, n + 1)]
        one = enc(rng.randint(-10, n + 10))
        other = rng.choice([{'t': 'blank'}, enc(0), enc(1), enc(1), enc(2), enc(rng.randint(-2, n + 2))])
        return {'f': 'INDEX', 'args': rng.choice([[{'t': 'arr', 'a': a}, one], [{'t': 'arr', 'a': a}, one, other],
                                                  [{'t': 'arr', 'a': a}, other, one]])}
    if k in (2, 3):
        nr, nc = rng.randint(1, 8), rng.randint(1, 8)
        text = rng.random() < 0.3
        a = {'t': 'arr', 'a': [{'t': 'arr', 'a': [enc(('r%dc%d' % (r, c)) if text else 100 * r + c) for c in range(1, nc + 1)]}
                                for r in range(1, nr + 1)]}
        ri = rng.choice([{'t': 'blank'}, enc(0), enc(rng.randint(-10, nr + 10)), enc(rng.randint(1, nr))])
        ci = rng.choice([{'t': 'blank'}, enc(0), enc(rng.randint(-10, nc + 10)), enc(rng.randint(1, nc))])
        if k == 3 and ri['t'] != 'blank':
            return {'f': 'INDEX', 'args': [a, ri]}
        return {'f': 'INDEX', 'args': [a, ri, ci]}
    if k == 4:
        n = rng.randint(1, 8)
        a = [rng.randint(-5, 12) for _ in range(n)]
        return {'f': 'MATCH', 'args': [enc(rng.randint(-6, 13)), enc(a), enc(0)]}
    if k == 5:
        n = rng.randint(1, 8)
        a = sorted(rng.choice([rng.randint(-5, 12), rng.randint(0, 4), rng.randint(0, 20) / 2]) for _ in range(n))
        t = rng.choice([1, -1])
        if t == -1:
            a = a[::-1]
        return {'f': 'MATCH', 'args': [enc(rng.choice([rng.randint(-6, 13), rng.randint(-6, 13) + 0.5])), enc(a), enc(t)]}
    n = rng.randint(1, 8)
    words = ['apple', 'Apricot', 'banana', 'BAN', 'cherry', 'a', 'ab', 'abc', 'x y', 'apple\n', 'a\nb', 'ab\n', '\nabc']
    a = [rng.choice(words) for _ in range(n)]
    pat = rng.choice(words + ['a*', '*an*', '?', '??', 'A?C', '*', 'b*a', 'zzz', 'ap?le', '*Y'])
    return {'f': 'MATCH', 'args': [enc(pat), enc(a), enc(0)]}


def main(tier, replay=None):
    run = core.Run('C18', tier, keep_replays=bool(replay))
    lib = core.load_library()
    names, bconst = core.builtins_constant()
    consts = {'Builtins': bconst}
    run.rule = ('one observation = one CHOOSE / INDEX / MATCH call with its array written as a literal, bound to a variable or '
                'supplied as a range value; distinct by formula and bindings; non-trivial = all')
    run.assumptions = ['INDEX on a one-dimensional array: by position with one index; with two indices it may be read as a column '
                       'or as a row (the statement does not fix the orientation), the answer being that element, the whole array '
                       'for position 0, or an error - never anything else',
                       'an error for a position outside the array may be any of the nine codes',
                       'MATCH 1/-1 on sorted arrays with duplicates may return any position holding the right item',
                       'wildcard patterns contain no [ or ]']
    if replay:
        c = json.load(open(replay))['case']
        if 'items' in c['in']:
            sg = lambda v: {'neg': v < 0, 'ds': [ord(ch) for ch in str(abs(v))]}
            bp = lib.Parser()
            x, items = int(c['in']['x']), [int(i) for i in c['in']['items']]
            bp.set_variable('vx', x)
            bp.set_variable('vi', list(items))
            r = bp.parse('MATCH(vx,vi,0)')
            pos = r['result'] if r['error'] is None and isinstance(r['result'], int) and not isinstance(r['result'], bool) else (0 if r['error'] == '#N/A' else -1)
            o = {'id': 1, 'kind': 'bigmatch', 'op': 'match', 'a': sg(x), 'b': sg(0), 'k': 0, 'items': [sg(i) for i in items], 'pos': pos,
                 'formula': 'MATCH(vx,vi,0)', 'out': {'int': False, 'neg': False, 'ds': [48]}, 'out2': {'int': False, 'neg': False, 'ds': [48]}, 'in': c['in']}
            v = core.validate_obs(run, 'Trace_Big', [o], 'replay')
            core.tally(run, [o], v, 'c18-big', key=lambda o: json.dumps(o['in'], sort_keys=True))
            return run.finish()
        if 'manyvalues' in c['in']:
            import harness.formula as F2
            h = F2.Harnessed(lib, c['env'])
            o = h.parse(c['formula'])
            o.update({'id': 1, 'ast': c['ast'], 'env': c['env'], 'formula': c['formula'], 'checks': ['value'], 'in': c['in']})
            v = core.validate_obs(run, 'Trace_Eval', [o], 'replay', consts)
            core.tally(run, [o], v, 'c18')
            return run.finish()
        if c['in'].get('after_mutation'):
            allobs = fncases.observe_after_mutation(lib, [c['in']])
        elif c['in'].get('after_probes'):
            allobs = fncases.observe_after_probes(lib, [c['in']], c['in']['after_probes'])
        else:
            allobs = fncases.observe(lib, [c['in']], ranges=True)
        obs = [o for o in allobs if o['formula'] == c['in']['formula']][:1] or allobs[:1]
        obs[0]['id'] = 1
        v = core.validate_obs(run, 'Trace_Eval', obs, 'replay', consts)
        core.tally(run, obs, v, 'c18')
        return run.finish()
    quick = tier == 'quick'
    cf = os.path.join(core.scratch(), 'c18_cases.ndjson')
    r = core.run_tlc('MC_C18.tla', 'MC_C18_quick.cfg' if quick else 'MC_C18_thorough.cfg', env={'CASE_FILE': cf})
    run.add_tlc('MC_C18', r)
    cases = core.read_cases(cf)
    run.extra['tlc_cases'] = len(cases)
    rng = random.Random(run.seed)
    cases += [rand_case(rng) for _ in range(4000 if quick else 100000)]
    # INDEX / MATCH on text arrays that hold the empty text
    for _ in range(60 if quick else 2000):
        n = rng.randint(2, 6)
        a = [rng.choice(['', '', 'a', 'b', ' ']) for _ in range(n)]
        cases.append({'f': 'INDEX', 'args': [enc(a), enc(rng.randint(1, n))]})
        cases.append({'f': 'MATCH', 'args': [enc(rng.choice(['', 'a', ' '])), enc(a), enc(0)]})
    obs = fncases.observe(lib, cases, ranges=True, twins=True)
    # CHOOSE with as many values as a call can hold (253, 254, 255): still the i-th one
    import harness.formula as F2
    extra = []
    for nvals in (253, 254, 100):      # (254 values is the most a spreadsheet call can hold)
        for i in (1, 2, nvals - 1, nvals, nvals + 1, 0):
            ast = F2.call('CHOOSE', F2.var('aa'), *[F2.num(str(1000 + k)) for k in range(1, nvals + 1)])
            env = F2.empty_env()
            env['vars'] = {'aa': enc(i)}
            h = F2.Harnessed(lib, env)
            text = F2.render(ast)
            o = h.parse(text)
            o.update({'ast': ast, 'env': env, 'formula': text, 'checks': ['value'],
                      'in': {'f': 'CHOOSE', 'args': [enc(i)] + [enc(1000 + k) for k in range(1, nvals + 1)], 'formula': text, 'manyvalues': nvals}})
            extra.append(o)
    # the host edits its table in place between two evaluations of the same call
    mo = fncases.observe_after_mutation(lib, [c for c in cases if c['f'] in ('INDEX', 'MATCH')][:1500 if quick else 40000])
    run.extra['evaluations_after_in_place_edit'] = len(mo)
    obs += mo
    # other lookups have looked at the same host table before (same parser, same list objects): it is still the table it was
    PROBES = ['MATCH(1,%s,0)', 'MATCH("zz",%s,0)', 'MATCH(101,%s,1)', 'INDEX(%s,1)', 'INDEX(%s,1,1)', 'INDEX(%s,0,1)', 'CHOOSE(1,%s)', 'SUM(%s)']
    po = fncases.observe_after_probes(lib, [c for c in cases if c['f'] in ('INDEX', 'MATCH')][-(1500 if quick else 40000):], PROBES)
    run.extra['evaluations_after_other_lookups_on_the_same_table'] = len(po)
    obs += po
    for o in extra:
        o['id'] = len(obs) + 1
        obs.append(o)
    # MATCH among integers that agree in their first fifteen digits (Trace_Big): the first item equal to x, not a near one
    sg = lambda v: {'neg': v < 0, 'ds': [ord(c) for c in str(abs(v))]}
    bp = lib.Parser()
    big = []
    for _ in range(120 if quick else 4000):
        base = rng.randint(10 ** 15, 10 ** 19)
        items = [base + d for d in rng.sample(range(-3, 4), rng.randint(2, 5))]
        x = rng.choice(items + [base + 9, items[-1]])
        bp.set_variable('vx', x)
        bp.set_variable('vi', list(items))
        r = bp.parse('MATCH(vx,vi,0)')
        pos = r['result'] if r['error'] is None and isinstance(r['result'], int) and not isinstance(r['result'], bool) else (0 if r['error'] == '#N/A' else -1)
        big.append({'kind': 'bigmatch', 'op': 'match', 'a': sg(x), 'b': sg(0), 'k': 0, 'items': [sg(i) for i in items], 'pos': pos,
                    'formula': 'MATCH(vx,vi,0)', 'out': {'int': False, 'neg': False, 'ds': [48]}, 'out2': {'int': False, 'neg': False, 'ds': [48]},
                    'in': {'x': str(x), 'items': [str(i) for i in items]}})
    for n, o in enumerate(big, 1):
        o['id'] = n
    vb = core.validate_obs(run, 'Trace_Big', big, 'big')
    core.tally(run, big, vb, 'c18-big', key=lambda o: json.dumps(o['in'], sort_keys=True))
    run.extra['big_integer_lookups'] = len(big)
    so = suite.observations({'CHOOSE','INDEX','MATCH'}, len(obs) + 1)   # the same functions as the repository's own tests call them
    run.extra['calls_from_repository_tests'] = len(so)
    obs += so
    CH = 25000
    for k in range(0, len(obs), CH):
        part = obs[k:k + CH]
        v = core.validate_obs(run, 'Trace_Eval', part, 'p%d' % (k // CH), consts)
        core.tally(run, part, v, 'c18', key=lambda o: o['formula'] + json.dumps(o['env']['vars'], sort_keys=True))
    run.exhaustive = True
    run.samples = [{'formula': o['formula'], 'vars': o['env']['vars'], 'out': o['out']['res'], 'err': o['out']['err']} for o in (obs[50], obs[-1])]
    return run.finish()
