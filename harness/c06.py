# -*- coding: utf-8 -*-
"""C06 - arithmetic and concatenation follow the implicit conversion table.  MC_C06: every pair of
a 26-value pool (every operand kind, arrays) under + - * / &, commutativity/error/array rules on
XLOps, every case exported; evaluated on the real parser with operands bound as variables and as
cell values, in both orders; Trace_C06 requires XLEval's outcome and commutativity.  C2S: random
operands (dyadic/decimal rationals, dates with times, numeric text, arrays to length 8)."""
import json
import os
import random

from . import core
from . import formula as F
from . import values
from .values import enc, outcome


def run_pair(lib, op, a, b, mode, follow=None):
    env = F.empty_env()
    if mode == 'var':
        env['vars'] = {'va': a, 'vb': b}
        x, y = F.var('va'), F.var('vb')
    else:
        env['cellsets'] = [{'key': F.cps('A1'), 'vals': [a]}, {'key': F.cps('B2'), 'vals': [b]}]
        x, y = F.cell('A1'), F.cell('$b$2')
    ast, ast2 = F.binop(op, x, y), F.binop(op, y, x)
    h = F.Harnessed(lib, env)
    o = h.parse(F.render(ast))
    o2 = h.parse(F.render(ast2))
    res = {'op': op, 'ast': ast, 'env': env, 'out': o['out'], 'out2': o2['out'], 'formula': F.render(ast),
           'in': {'op': op, 'a': a, 'b': b, 'mode': mode}}
    if mode == 'var' and 'arr' in (a['t'], b['t']) and follow is not None:
        # the same operand objects meet another partner afterwards: the host's arrays are still what it registered
        for name in ('va', 'vb'):
            fa, fa2 = F.binop('+', F.var(name), F.num('1')), F.binop('+', F.num('1'), F.var(name))
            q, q2 = h.parse(F.render(fa)), h.parse(F.render(fa2))
            follow.append({'op': '+', 'ast': fa, 'env': env, 'out': q['out'], 'out2': q2['out'], 'formula': F.render(fa),
                           'in': {'op': '+', 'a': a if name == 'va' else b, 'b': enc(1), 'mode': 'var',
                                  'after': F.render(ast), 'pair': {'op': op, 'a': a, 'b': b}, 'which': name}})
    return res


def rand_scalar(rng):
    k = rng.randrange(9)
    if k == 0:
        return enc(rng.randint(-1000, 1000))
    if k == 1:
        d = rng.choice([2, 4, 8, 5, 10, 100])
        return values.enc_num(__import__('fractions').Fraction(rng.randint(-4000, 4000), d))
    if k == 2:
        return enc(rng.random() < 0.5)
    if k == 3:
        return {'t': 'blank'}
    if k == 4:
        n = rng.randint(-999, 999)
        return enc(rng.choice([str(n), '%d.%d' % (n, rng.randint(0, 99)), '+%d' % abs(n)]))
    if k == 5:
        return enc(rng.choice(['qq#', 'zz top', 'a_b', 'x=1', '#?!', 'abc%', '%', 'n/a %', '5-10%', 'x$', 'e', 'E5', '.', '-', '+', '1e', '0x', '\u00b2', '%5']))
    if k == 6:
        return {'t': 'date', 'y': rng.randint(1901, 2150), 'mo': rng.randint(1, 12), 'd': rng.randint(1, 28),
                'ms': rng.choice([0, 0, 10800000, 21600000, 43200000, 64800000])}
    if k == 7:
        return enc('%04d-%02d-%02d' % (rng.randint(1901, 2100), rng.randint(1, 12), rng.randint(1, 28)))
    return enc(rng.choice([0, 1, 2, 0.5, 44000, 36526]))


def rand_operand(rng):
    if rng.random() < 0.2:
        n = rng.randint(1, 8)
        if rng.random() < 0.25:
            return {'t': 'arr', 'a': [{'t': 'arr', 'a': [rand_scalar(rng) for _ in range(rng.randint(1, 3))]} for _ in range(min(n, 3))]}
        return {'t': 'arr', 'a': [rand_scalar(rng) for _ in range(n)]}
    return rand_scalar(rng)


def signed(n):
    return {'neg': n < 0, 'ds': [ord(c) for c in str(abs(n))]}


def big_out(rec):
    v = rec['result']
    if rec['error'] is None and isinstance(v, int) and not isinstance(v, bool):
        return dict(signed(v), int=True)
    if rec['error'] is None and isinstance(v, float) and v == int(v) and abs(v) < 2 ** 53:
        return dict(signed(int(v)), int=True)      # a whole number held as a float denotes that integer
    return {'int': False, 'neg': False, 'ds': [48], 'repr': repr(v)[:60], 'err': str(rec['error'])}


def run_big(lib, op, a, b, a_text, b_text, mode):
    """a op b on integers a double cannot hold, each given as a number or as text spelling it"""
    p = lib.Parser()
    if abs(a) < 2 ** 1000 and float(a) == a:
        # the float that equals a was an operand a moment ago: a is still the integer it is
        p.set_variable('vf', float(a))
        p.parse('vf+0')
        p.parse('vf&""')
    if op == '&':
        suffix = ['', 'x', ' kg', '0'][abs(a) % 4]
        p.set_variable('va', a)
        p.set_variable('vs', suffix)
        r1, r2 = p.parse('va&vs'), p.parse('vs&va')
        tx = lambda r: [ord(c) for c in r['result']] if r['error'] is None and isinstance(r['result'], str) else [0]
        return {'kind': 'big', 'op': '&', 'a': signed(a), 'b': signed(0), 'k': 0, 'suffix': [ord(c) for c in suffix],
                'txt': tx(r1), 'txt2': tx(r2), 'formula': 'va&vs', 'out': {'int': False, 'neg': False, 'ds': [48]},
                'out2': {'int': False, 'neg': False, 'ds': [48]},
                'in': {'op': '&', 'a': str(a), 'b': '0', 'a_text': False, 'b_text': False, 'mode': 'var'}}
    va = str(a) if a_text else a
    vb = str(b) if b_text else b
    if mode == 'var':
        p.set_variable('va', va)
        p.set_variable('vb', vb)
        fa, fb = 'va', 'vb'
    elif mode == 'cell':
        p.on('callCellValue', lambda c, s: s(va if c.label == 'A1' else vb))
        fa, fb = 'A1', 'B2'
    else:       # written in the formula
        fa = '"%d"' % a if a_text else ('%d' % a if a >= 0 else '(0-%d)' % -a)
        fb = '"%d"' % b if b_text else ('%d' % b if b >= 0 else '(0-%d)' % -b)
    o = {'kind': 'big', 'op': op, 'a': signed(a), 'in': {'op': op, 'a': str(a), 'b': str(b), 'a_text': a_text, 'b_text': b_text, 'mode': mode}}
    if op == '*':
        o['k'] = b
        o['b'] = signed(0)
    else:
        o['k'] = 0
        o['b'] = signed(b)
    o['formula'] = fa + op + fb
    o['out'] = big_out(p.parse(fa + op + fb))
    o['out2'] = big_out(p.parse(fb + op + fa))
    return o


def big_cases(rng, n):
    out = []
    for _ in range(n):
        a = rng.choice([2 ** 53 + 1, 10 ** 16 + 1, 10 ** 17 + 7, rng.randint(2 ** 53, 10 ** 30), rng.randint(10 ** 15, 10 ** 19),
                        2 ** 128, rng.randint(10 ** 30, 10 ** 60), 10 ** 40 + 1])
        if rng.random() < 0.12:       # integers beyond the largest double: still integers
            a = rng.choice([10 ** 309 + 1, 2 ** 1024, 2 ** 1024 - 1, 2 * 10 ** 308, 9 * 10 ** 307, rng.randint(10 ** 300, 10 ** 320), 10 ** 400 + 7])
        a = a if rng.random() < 0.7 else -a
        op = rng.choice(['+', '-', '+', '-', '*', '&'])
        if rng.random() < 0.15:
            a = rng.choice([10 ** 15, 10 ** 16, 2 ** 53, 2 ** 60, 1234567890123456, 10 ** 20, 123456789012345678]) * rng.choice([1, -1])
        if op == '&':
            out.append((op, a, 0, False, False, 'var'))
            continue
        if op == '*':
            b = rng.choice([1, 2, 3, 7, 10, -1, -5, 101, 9999])
        else:
            b = rng.choice([0, 1, -1, 2, a - 1, -(a - 1), a + 1, -a, rng.randint(-10 ** 18, 10 ** 18), 2 ** 53, rng.randint(1, 10 ** 6)])
        out.append((op, a, b, rng.random() < 0.6, op != '*' and rng.random() < 0.4, rng.choice(['var', 'cell', 'lit'])))
    return out


def main(tier, replay=None):
    run = core.Run('C06', tier, keep_replays=bool(replay))
    values.TOL[0] = 1e-12     # cancellation: the error of a difference is relative to the operands, not the result
    lib = core.load_library()
    names, bconst = core.builtins_constant()
    consts = {'Builtins': bconst}
    run.rule = ('one observation = a op b and b op a evaluated with the operands bound as variables or as cell values; '
                'distinct by (op, a, b, mode); non-trivial = operands of different kind or an array')
    run.assumptions = ['numeric text is [+-]?digits(.digits)?; date text is ISO yyyy-mm-dd; non-numeric text comes from a pool that '
                       'no number/date parser accepts', 'dates from 1 March 1900 (C13 owns the earlier serials); times of day are '
                       'multiples of 3 hours so that serials are dyadic and exact in binary floating point',
                       'result kind is pinned to a date for date+-number and number+date only; other combinations with a date may '
                       'give either kind with the right serial', 'one-element arrays combined with longer arrays are unspecified '
                       '(broadcast or #VALUE!), but + and * must still commute',
                       '& is exercised on text, integers and blanks']
    if replay:
        c = json.load(open(replay))['case']['in']
        if 'a_text' in c:
            o = run_big(lib, c['op'], int(c['a']), int(c['b']), c['a_text'], c['b_text'], c['mode'])
            o['id'] = 1
            v = core.validate_obs(run, 'Trace_Big', [o], 'replay')
            core.tally(run, [o], v, 'c06-big')
            return run.finish()
        if 'pair' in c:
            fl = []
            run_pair(lib, c['pair']['op'], c['pair']['a'], c['pair']['b'], 'var', fl)
            o = [x for x in fl if x['in']['which'] == c['which']][0]
        else:
            o = run_pair(lib, c['op'], c['a'], c['b'], c['mode'])
        o['id'] = 1
        v = core.validate_obs(run, 'Trace_C06', [o], 'replay', consts)
        core.tally(run, [o], v, 'c06')
        return run.finish()
    quick = tier == 'quick'
    cf = os.path.join(core.scratch(), 'c06_cases.ndjson')
    r = core.run_tlc('MC_C06.tla', 'MC_C06.cfg', env={'CASE_FILE': cf})
    run.add_tlc('MC_C06', r)
    cases = core.read_cases(cf)
    run.extra['tlc_cases'] = len(cases)
    rng = random.Random(run.seed)
    obs = []
    follow = []
    for c in cases:
        for mode in ('var', 'cell'):
            obs.append(run_pair(lib, c['op'], c['a'], c['b'], mode, follow))
    for _ in range(5000 if quick else 120000):
        obs.append(run_pair(lib, rng.choice(['+', '-', '*', '/', '&', '+', '*']), rand_operand(rng), rand_operand(rng),
                            rng.choice(['var', 'cell']), follow))
    run.extra['follow_up_observations_on_the_same_host_arrays'] = len(follow)
    obs += follow
    # equal-length numeric arrays under / with zeros among the divisors: the error is that element's, not the whole result's
    for _ in range(150 if quick else 4000):
        n = rng.randint(2, 5)
        xs = {'t': 'arr', 'a': [enc(rng.randint(-9, 9)) for _ in range(n)]}
        ys = {'t': 'arr', 'a': [enc(rng.choice([0, 0, 1, 2, -4, rng.randint(-9, 9)])) for _ in range(n)]}
        obs.append(run_pair(lib, rng.choice(['/', '/', '*', '-']), xs, ys, rng.choice(['var', 'cell']), follow))
    # the recorded finding's witness and its mirror image
    w = ({'t': 'arr', 'a': [{'t': 'arr', 'a': [{'t': 'blank'}]}]}, {'t': 'arr', 'a': [enc('qq#'), {'t': 'blank'}, {'t': 'blank'}]})
    for op in ('+', '*'):
        obs.append(run_pair(lib, op, w[0], w[1], 'var'))
        obs.append(run_pair(lib, op, w[1], w[0], 'cell'))
    for n, o in enumerate(obs, 1):
        o['id'] = n
    CH = 25000
    for k in range(0, len(obs), CH):
        part = obs[k:k + CH]
        v = core.validate_obs(run, 'Trace_C06', part, 'p%d' % (k // CH), consts)
        core.tally(run, part, v, 'c06', nontrivial=lambda o: o['in']['a']['t'] != o['in']['b']['t'] or o['in']['a']['t'] == 'arr')
    # date-times with any millisecond part, moved by whole numbers of days: the result is that date-time (to the
    # millisecond) on the other day - nothing of the time of day is dropped (Trace_Date, kind "shift": calendar arithmetic
    # on (day, millisecond) pairs instead of rational serials)
    import datetime as _dt
    from . import dates as _dates
    shifts = []
    sp = lib.Parser()
    for _ in range(300 if quick else 8000):
        y, mo, dd = rng.randint(1901, 2150), rng.randint(1, 12), rng.randint(1, 28)
        ms = rng.choice([750, 2, 999, 43200123, 86399990, rng.randint(2, 86399990), rng.randint(2, 86399990)])
        n = rng.choice([rng.randint(-1000, 1000), 0, 1, -1, 365, 36525])
        op = rng.choice(['+', '+', '-'])
        sp.set_variable('va', _dt.datetime(y, mo, dd) + _dt.timedelta(milliseconds=ms))
        sp.set_variable('vb', n)
        f = '{va+vb,vb+va}' if op == '+' else '{va-vb,va-vb}'
        shifts.append({'kind': 'shift', 'in': {'y': y, 'mo': mo, 'd': dd, 'ms': ms, 'n': n, 'op': op}, 'out': _dates.value_of(sp, f)})
    for n, o in enumerate(shifts, 1):
        o['id'] = n
    v = core.validate_obs(run, 'Trace_Date', shifts, 'shift')
    core.tally(run, shifts, v, 'c06-shift', key=lambda o: json.dumps(o['in'], sort_keys=True))
    run.extra['date_time_shift_observations'] = len(shifts)
    # integers no double can hold, as numbers and as text: exact sums, differences and small multiples (BigNat)
    big = [run_big(lib, *c) for c in big_cases(rng, 600 if quick else 20000)]
    for n, o in enumerate(big, 1):
        o['id'] = n
    v = core.validate_obs(run, 'Trace_Big', big, 'big')
    core.tally(run, big, v, 'c06-big')
    run.extra['big_integer_observations'] = len(big)
    run.exhaustive = True
    run.samples = [{'in': o['in'], 'out': o['out']['res'], 'err': o['out']['err']} for o in (obs[17], obs[-1])]
    return run.finish()
