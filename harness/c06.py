# -*- coding: utf-8 -*-
"""C06 - arithmetic and concatenation follow the implicit conversion table.  MC_C06: every pair of
a 26-value pool (every operand kind, arrays) under + - * / &, commutativity/error/array rules on
XLOps, every case exported; evaluated on the real parser with operands bound as variables and as
cell values, in both orders; Trace_C06 requires XLEval's outcome and commutativity.  C2S: random
operands (dyadic/decimal rationals, dates with times, numeric text, arrays to length 8)."""
import json
import os
import random

from . import core
from . import formula as F
from . import values
from .values import enc, outcome


def run_pair(lib, op, a, b, mode):
    env = F.empty_env()
    if mode == 'var':
        env['vars'] = {'va': a, 'vb': b}
        x, y = F.var('va'), F.var('vb')
    else:
        env['cellsets'] = [{'key': F.cps('A1'), 'vals': [a]}, {'key': F.cps('B2'), 'vals': [b]}]
        x, y = F.cell('A1'), F.cell('$b$2')
    ast, ast2 = F.binop(op, x, y), F.binop(op, y, x)
    h = F.Harnessed(lib, env)
    o = h.parse(F.render(ast))
    o2 = h.parse(F.render(ast2))
    return {'op': op, 'ast': ast, 'env': env, 'out': o['out'], 'out2': o2['out'], 'formula': F.render(ast),
            'in': {'op': op, 'a': a, 'b': b, 'mode': mode}}


def rand_scalar(rng):
    k = rng.randrange(9)
    if k == 0:
        return enc(rng.randint(-1000, 1000))
    if k == 1:
        d = rng.choice([2, 4, 8, 5, 10, 100])
        return values.enc_num(__import__('fractions').Fraction(rng.randint(-4000, 4000), d))
    if k == 2:
        return enc(rng.random() < 0.5)
    if k == 3:
        return {'t': 'blank'}
    if k == 4:
        n = rng.randint(-999, 999)
        return enc(rng.choice([str(n), '%d.%d' % (n, rng.randint(0, 99)), '+%d' % abs(n)]))
    if k == 5:
        return enc(rng.choice(['qq#', 'zz top', 'a_b', 'x=1', '#?!']))
    if k == 6:
        return {'t': 'date', 'y': rng.randint(1901, 2150), 'mo': rng.randint(1, 12), 'd': rng.randint(1, 28),
                'ms': rng.choice([0, 0, 10800000, 21600000, 43200000, 64800000])}
    if k == 7:
        return enc('%04d-%02d-%02d' % (rng.randint(1901, 2100), rng.randint(1, 12), rng.randint(1, 28)))
    return enc(rng.choice([0, 1, 2, 0.5, 44000, 36526]))


def rand_operand(rng):
    if rng.random() < 0.2:
        n = rng.randint(1, 8)
        if rng.random() < 0.25:
            return {'t': 'arr', 'a': [{'t': 'arr', 'a': [rand_scalar(rng) for _ in range(rng.randint(1, 3))]} for _ in range(min(n, 3))]}
        return {'t': 'arr', 'a': [rand_scalar(rng) for _ in range(n)]}
    return rand_scalar(rng)


def main(tier, replay=None):
    run = core.Run('C06', tier, keep_replays=bool(replay))
    values.TOL[0] = 1e-12     # cancellation: the error of a difference is relative to the operands, not the result
    lib = core.load_library()
    names, bconst = core.builtins_constant()
    consts = {'Builtins': bconst}
    run.rule = ('one observation = a op b and b op a evaluated with the operands bound as variables or as cell values; '
                'distinct by (op, a, b, mode); non-trivial = operands of different kind or an array')
    run.assumptions = ['numeric text is [+-]?digits(.digits)?; date text is ISO yyyy-mm-dd; non-numeric text comes from a pool that '
                       'no number/date parser accepts', 'dates from 1 March 1900 (C13 owns the earlier serials); times of day are '
                       'multiples of 3 hours so that serials are dyadic and exact in binary floating point',
                       'result kind is pinned to a date for date+-number and number+date only; other combinations with a date may '
                       'give either kind with the right serial', 'one-element arrays combined with longer arrays are unspecified '
                       '(broadcast or #VALUE!), but + and * must still commute',
                       '& is exercised on text, integers and blanks']
    if replay:
        c = json.load(open(replay))['case']['in']
        o = run_pair(lib, c['op'], c['a'], c['b'], c['mode'])
        o['id'] = 1
        v = core.validate_obs(run, 'Trace_C06', [o], 'replay', consts)
        core.tally(run, [o], v, 'c06')
        return run.finish()
    quick = tier == 'quick'
    cf = os.path.join(core.scratch(), 'c06_cases.ndjson')
    r = core.run_tlc('MC_C06.tla', 'MC_C06.cfg', env={'CASE_FILE': cf})
    run.add_tlc('MC_C06', r)
    cases = core.read_cases(cf)
    run.extra['tlc_cases'] = len(cases)
    rng = random.Random(run.seed)
    obs = []
    for c in cases:
        for mode in ('var', 'cell'):
            obs.append(run_pair(lib, c['op'], c['a'], c['b'], mode))
    for _ in range(5000 if quick else 120000):
        obs.append(run_pair(lib, rng.choice(['+', '-', '*', '/', '&', '+', '*']), rand_operand(rng), rand_operand(rng),
                            rng.choice(['var', 'cell'])))
    # the recorded finding's witness and its mirror image
    w = ({'t': 'arr', 'a': [{'t': 'arr', 'a': [{'t': 'blank'}]}]}, {'t': 'arr', 'a': [enc('qq#'), {'t': 'blank'}, {'t': 'blank'}]})
    for op in ('+', '*'):
        obs.append(run_pair(lib, op, w[0], w[1], 'var'))
        obs.append(run_pair(lib, op, w[1], w[0], 'cell'))
    for n, o in enumerate(obs, 1):
        o['id'] = n
    CH = 25000
    for k in range(0, len(obs), CH):
        part = obs[k:k + CH]
        v = core.validate_obs(run, 'Trace_C06', part, 'p%d' % (k // CH), consts)
        core.tally(run, part, v, 'c06', nontrivial=lambda o: o['in']['a']['t'] != o['in']['b']['t'] or o['in']['a']['t'] == 'arr')
    run.exhaustive = True
    run.samples = [{'in': o['in'], 'out': o['out']['res'], 'err': o['out']['err']} for o in (obs[17], obs[-1])]
    return run.finish()
