#!/bin/sh
# Offline setup: nothing to fetch or build. Syntax/semantic check of every TLA+ module and
# byte-compilation of the harness.
cd "$(dirname "$0")"
/venv/bin/python - <<'PY'
import sys, compileall
sys.path.insert(0, '.')
from harness import core
bad = core.sany_all()
for f, out in bad:
    print('SANY failed:', f); print(out)
ok = compileall.compile_dir('harness', quiet=1)
sys.exit(1 if bad or not ok else 0)
PY
